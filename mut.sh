#!/bin/bash
# usage: mut.sh '<sed expr>' <file> -- <verif args...>   : run the engine on a scratch copy of /repo with one edit
set -e
SED="$1"; FILE="$2"; shift 3
D=$(mktemp -d /tmp/mut.XXXXXX)
trap 'rm -rf "$D"' EXIT
rsync -a --exclude .git /repo/ "$D/"
sed -i "$SED" "$D/$FILE"
if diff -q /repo/$FILE $D/$FILE >/dev/null; then echo "MUTATION DID NOT APPLY"; exit 3; fi
(cd $D && GOFLAGS=-mod=mod GOPROXY=off GOSUMDB=off go build ./... ) || { echo "MUTANT DOES NOT COMPILE"; exit 4; }
VERIF_REPO="$D" /verif/bin/verif "$@"
