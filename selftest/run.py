#!/usr/bin/env python3
"""Selftest: apply each corpus edit (selftest/corpus.json) to a scratch copy of /repo, check that it
compiles, run the property's check and compare with the expectation. Usage: run.py [ids...]"""
import os, subprocess, sys, tempfile, shutil, json, concurrent.futures as cf
VERIF = os.environ.get("VERIF_ROOT", "/verif")
ENV = dict(os.environ, GOFLAGS="-mod=mod", GOPROXY="off", GOSUMDB="off", GOTOOLCHAIN="local")
C = json.load(open(os.path.join(VERIF, "selftest", "corpus.json")))
def run_one(e, harmless):
    mid, prop, fn = e["id"], e["property"], e.get("file")
    d = tempfile.mkdtemp(prefix="selftest.")
    try:
        subprocess.run(["rsync", "-a", "--exclude", ".git", "/repo/", d + "/"], check=True)
        if e.get("patch"):
            # a whole diff (kept under /verif), applied with patch(1) to the scratch copy
            pr = subprocess.run(["patch", "-p1", "-s", "-i", os.path.join(VERIF, e["patch"])], cwd=d, capture_output=True, text=True)
            if pr.returncode != 0:
                return (mid, prop, "STALE", "patch does not apply: " + pr.stdout[-200:])
        else:
            edits = e["edits"] if harmless else [{"old": e["old"], "new": e["new"]}]
            p = os.path.join(d, fn); s = open(p).read()
            for ed in edits:
                if ed["old"] not in s:
                    return (mid, prop, "STALE", "edit does not apply")
                s = s.replace(ed["old"], ed["new"], 1)
            open(p, "w").write(s)
        benv = dict(ENV)
        if e.get("goos"): benv.update(GOOS=e["goos"], CGO_ENABLED="0")
        b = subprocess.run(["go", "build", "./..."], cwd=d, env=benv, capture_output=True, text=True)
        if b.returncode != 0:
            return (mid, prop, "NOCOMPILE", b.stderr[-300:])
        ev = os.path.join(d, ".evidence")
        r = subprocess.run([VERIF + "/bin/verif", "check", prop], env=dict(ENV, VERIF_REPO=d, VERIF_EVIDENCE_DIR=ev), capture_output=True, text=True, timeout=900)
        out = r.stdout
        viol = [l for l in out.splitlines() if l.startswith(("VIOLATION", "failed obligation", "bounded C", "scenario "))]
        if harmless:
            ok = r.returncode == 0
            return (mid, prop, "OK" if ok else "FALSE-ALARM", "" if ok else "\n".join(out.splitlines()[-6:]))
        if r.returncode == 1 and any(e["expect"] in l for l in viol):
            return (mid, prop, "DETECTED", next(l for l in viol if e["expect"] in l)[:160])
        if r.returncode == 1:
            return (mid, prop, "DETECTED-OTHER", "; ".join(viol)[:300])
        return (mid, prop, "MISSED" if r.returncode == 0 else "UNDECIDED", "\n".join(out.splitlines()[-4:])[:400])
    finally:
        shutil.rmtree(d, ignore_errors=True)
def main():
    want = set(sys.argv[1:])
    jobs = [(e, False) for e in C["must_fail"] if not want or e["id"] in want] + [(e, True) for e in C["harmless"] if not want or e["id"] in want]
    res = []
    with cf.ThreadPoolExecutor(max_workers=4) as ex:
        for r in ex.map(lambda j: run_one(*j), jobs):
            print("%-28s %-4s %-14s %s" % r, flush=True); res.append(r)
    bad = [r for r in res if r[2] not in ("DETECTED", "OK")]
    print("selftest: %d entries, %d as expected, %d not" % (len(res), len(res) - len(bad), len(bad)))
    if not want:
        json.dump([dict(id=r[0], property=r[1], outcome=r[2], detail=r[3]) for r in res], open(os.path.join(VERIF, "selftest", "last_run.json"), "w"), indent=1)
    sys.exit(1 if bad else 0)
main()
