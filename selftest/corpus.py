# Must-fail corpus: small property-breaking edits of /repo (each compiles). Each entry:
# (id, property, file, old text, new text, substring expected in a failed obligation name)
M = [
 ("m01_decode_lt", "C01", "backend_inotify.go", "for offset <= uint32(n-unix.SizeofInotifyEvent) {", "for offset < uint32(n-unix.SizeofInotifyEvent) {", "loop-exit"),
 ("m02_send_default", "C01", "shared.go", "\tcase w.Events <- e:\n\t\treturn true\n", "\tcase w.Events <- e:\n\t\treturn true\n\tdefault:\n\t\treturn true\n", "sendEvent/post"),
 ("m03_no_delete_self", "C01", "backend_inotify.go", "flags |= unix.IN_DELETE | unix.IN_DELETE_SELF", "flags |= unix.IN_DELETE", "callsite"),
 ("m04_name_off_by_one", "C08", "backend_inotify.go", "unsafe.Pointer(&bb[offset+unix.SizeofInotifyEvent]))", "unsafe.Pointer(&bb[offset+unix.SizeofInotifyEvent-1]))", "handleEvent/post"),
 ("m05_name_len", "C08", "backend_inotify.go", "name += \"/\" + strings.TrimRight(string(bytes[0:nameLen]), \"\\x00\")", "name += \"/\" + strings.TrimRight(string(bytes[0:nameLen-1]), \"\\x00\")", "handleEvent/post"),
 ("m06_skip_nil_watch", "C07", "backend_inotify.go", "\tif watch == nil {\n\t\treturn Event{}, true\n\t}\n", "", "safety/nil"),
 ("m07_ignored_falls_through", "C02", "backend_inotify.go", "\t\tw.watches.remove(watch)\n\t\treturn Event{}, true\n\t}\n\n\t// inotify will automatically", "\t\tw.watches.remove(watch)\n\t}\n\n\t// inotify will automatically", "handleEvent/post"),
 ("m08_send_empty_op", "C02", "shared.go", "\tif e.Op == 0 {\n\t\treturn true\n\t}\n", "", "sendEvent/post"),
 ("m09_go_send", "C03", "backend_inotify.go", "\t\t\tif !w.sendEvent(ev) {\n\t\t\t\treturn\n\t\t\t}\n", "\t\t\tgo w.sendEvent(ev)\n", "readEvents"),
 ("m10_remove_one_table", "C04", "backend_inotify.go", "func (w *watches) remove(watch *watch)       { delete(w.path, watch.path); delete(w.wd, watch.wd) }", "func (w *watches) remove(watch *watch)       { delete(w.path, watch.path) }", "lockinv"),
 # (m11, dropping filepath.Clean in Remove, is an equivalent mutant: removePath cleans its argument again through recursivePath)
 ("m13_reentrant_remove", "C05", "backend_inotify.go", "\t\terr := w.remove(watch.path)", "\t\terr := w.Remove(watch.path)", "handleEvent"),
 ("m14_send_under_lock", "C05", "backend_inotify.go", "\tev := w.newEvent(name, inEvent.Mask, inEvent.Cookie)\n", "\tev := w.newEvent(name, inEvent.Mask, inEvent.Cookie)\n\tw.sendEvent(ev)\n", "handleEvent"),
 ("m15_close_closes_events", "C06", "backend_inotify.go", "\t<-w.doneResp // Wait for readEvents() to finish.\n", "\t<-w.doneResp // Wait for readEvents() to finish.\n\tclose(w.Events)\n", "Close/safety/chan"),
 ("m16_errors_not_closed", "C06", "backend_inotify.go", "\t\tclose(w.doneResp)\n\t\tclose(w.Errors)\n", "\t\tclose(w.doneResp)\n", "readEvents/post"),
 ("m17_remove_errclosed", "C06", "backend_inotify.go", "func (w *inotify) Remove(name string) error {\n\tif w.isClosed() {\n\t\treturn nil\n\t}", "func (w *inotify) Remove(name string) error {\n\tif w.isClosed() {\n\t\treturn ErrClosed\n\t}", "Remove/post"),
 ("m18_watchlist_nolock", "C07", "backend_inotify.go", "\tw.mu.Lock()\n\tdefer w.mu.Unlock()\n\tentries := make", "\tentries := make", "WatchList/safety/own"),
 ("m19_ring_nolock", "C07", "backend_inotify.go", "\t\t\tw.cookiesMu.Lock()\n\t\t\tw.cookies[w.cookieIndex] = koekje{cookie: cookie, path: e.Name}\n\t\t\tw.cookieIndex++\n\t\t\tif w.cookieIndex > 9 {\n\t\t\t\tw.cookieIndex = 0\n\t\t\t}\n\t\t\tw.cookiesMu.Unlock()\n", "\t\t\tw.cookies[w.cookieIndex] = koekje{cookie: cookie, path: e.Name}\n\t\t\tw.cookieIndex++\n\t\t\tif w.cookieIndex > 9 {\n\t\t\t\tw.cookieIndex = 0\n\t\t\t}\n", "newEvent/safety/own"),
 ("m20_moveself_keeps_watch", "C09", "backend_inotify.go", "\t\terr := w.remove(watch.path)\n\t\tif err != nil && !errors.Is(err, ErrNonExistentWatch) {", "\t\tvar err error\n\t\tif err != nil && !errors.Is(err, ErrNonExistentWatch) {", "handleEvent/post"),
 ("m21_forward_nonexistent", "C10", "backend_inotify.go", "\t\tif err != nil && !errors.Is(err, ErrNonExistentWatch) {\n\t\t\tif !w.sendError(err) {", "\t\tif err != nil {\n\t\t\tif !w.sendError(err) {", "handleEvent"),
 ("m22_ring_index", "C11", "backend_inotify.go", "if w.cookieIndex > 9 {", "if w.cookieIndex > 10 {", "newEvent"),
 ("m23_cookie_zero", "C11", "backend_inotify.go", "\tif cookie != 0 {\n\t\tif mask&unix.IN_MOVED_FROM", "\tif true {\n\t\tif mask&unix.IN_MOVED_FROM", "newEvent/post"),
 ("m24_no_rm_watch", "C12", "backend_inotify.go", "\t\t_, err := unix.InotifyRmWatch(w.fd, wd)\n\t\tif err != nil && !errors.Is(err, unix.EINVAL) {", "\t\tvar err error\n\t\t_ = wd\n\t\tif err != nil && !errors.Is(err, unix.EINVAL) {", "remove/"),
 ("m25_close_keeps_fd", "C13", "backend_inotify.go", "\terr := w.inotifyFile.Close()\n\tif err != nil {\n\t\treturn err\n\t}\n", "\tvar err error\n\tif err != nil {\n\t\treturn err\n\t}\n", "Close/post"),
 ("m26_goroutine_before_check", "C13", "fsnotify.go", "\tb, err := newBackend(ev, errs)\n\tif err != nil {\n\t\treturn nil, err\n\t}\n\treturn &Watcher{b: b, Events: ev, Errors: errs}, nil\n}\n\n// NewBufferedWatcher", "\tb, err := newBackend(ev, errs)\n\tif err != nil {\n\t\tb, err = newBackend(ev, errs)\n\t\tif err != nil {\n\t\t\treturn nil, err\n\t\t}\n\t\tnewBackend(ev, errs)\n\t}\n\treturn &Watcher{b: b, Events: ev, Errors: errs}, nil\n}\n\n// NewBufferedWatcher", "NewWatcher/post"),
 ("m27_cap_plus_one", "C14", "fsnotify.go", "ev, errs := make(chan Event, sz), make(chan error)", "ev, errs := make(chan Event, sz+1), make(chan error)", "NewBufferedWatcher/post"),
 ("m28_movedto_rename", "C15", "backend_inotify.go", "\tif mask&unix.IN_CREATE == unix.IN_CREATE || mask&unix.IN_MOVED_TO == unix.IN_MOVED_TO {\n\t\te.Op |= Create", "\tif mask&unix.IN_CREATE == unix.IN_CREATE {\n\t\te.Op |= Create", "newEvent/post"),
 ("m29_opstring_swap", "C16", "fsnotify.go", "b.WriteString(\"|RENAME\")", "b.WriteString(\"|RENAMED\")", "Op.String/post"),
 ("m30_has_all", "C16", "fsnotify.go", "func (o Op) Has(h Op) bool { return o&h != 0 }", "func (o Op) Has(h Op) bool { return o&h == h }", "Op.Has/post"),
 ("m31_event_string_swap", "C16", "fsnotify.go", "e.Op.String(), e.Name, e.renamedFrom)", "e.Op.String(), e.renamedFrom, e.Name)", "Event.String/post"),
 ("m32_isclosed_inverted", "C06", "backend_inotify.go", "func (w *inotify) WatchList() []string {\n\tif w.isClosed() {\n\t\treturn nil\n\t}", "func (w *inotify) WatchList() []string {\n\tif false {\n\t\treturn nil\n\t}", "WatchList/post"),
 ("m33_overflow_silent", "C01", "backend_inotify.go", "\t\t\t\tif !w.sendError(ErrEventOverflow) {\n\t\t\t\t\treturn\n\t\t\t\t}\n", "", "readEvents/inv-keep"),
 ("m34_first_spelling", "C08", "backend_inotify.go", "\t\tif e, ok := w.watches.wd[uint32(wd)]; ok {\n\t\t\tif existing != nil && existing != e {", "\t\tif e, ok := w.watches.wd[uint32(wd)]; ok {\n\t\t\tif existing == nil {\n\t\t\t\te.path = path\n\t\t\t}\n\t\t\tif existing != nil && existing != e {", "register"),
]
# Harmless edits: every check must stay green.
H = [
 ("h01_rename_local", "C01", "backend_inotify.go", [("var offset uint32\n\t\tfor offset <= uint32(n-unix.SizeofInotifyEvent) {", "var off2 uint32\n\t\tfor off2 <= uint32(n-unix.SizeofInotifyEvent) {"), ("unsafe.Pointer(&buf[offset]))", "unsafe.Pointer(&buf[off2]))"), ("w.handleEvent(inEvent, &buf, offset)", "w.handleEvent(inEvent, &buf, off2)"), ("\t\t\toffset += unix.SizeofInotifyEvent + inEvent.Len", "\t\t\toff2 += unix.SizeofInotifyEvent + inEvent.Len")]),
 ("h02_mask_test_style", "C15", "backend_inotify.go", [("if mask&unix.IN_MODIFY == unix.IN_MODIFY {", "if mask&unix.IN_MODIFY != 0 {")]),
 ("h03_debug_print", "C04", "backend_inotify.go", [("\tw.mu.Lock()\n\tdefer w.mu.Unlock()\n\treturn w.remove(filepath.Clean(name))", "\tw.mu.Lock()\n\tdefer w.mu.Unlock()\n\tif debug {\n\t\tfmt.Fprintf(os.Stderr, \"removing %q\\n\", name)\n\t}\n\treturn w.remove(filepath.Clean(name))")]),
 ("h04_swap_independent_ifs", "C15", "backend_inotify.go", [("\tif mask&unix.IN_OPEN == unix.IN_OPEN {\n\t\te.Op |= xUnportableOpen\n\t}\n\tif mask&unix.IN_ACCESS == unix.IN_ACCESS {\n\t\te.Op |= xUnportableRead\n\t}\n", "\tif mask&unix.IN_ACCESS == unix.IN_ACCESS {\n\t\te.Op |= xUnportableRead\n\t}\n\tif mask&unix.IN_OPEN == unix.IN_OPEN {\n\t\te.Op |= xUnportableOpen\n\t}\n")]),
]
