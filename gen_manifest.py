#!/usr/bin/env python3
"""Regenerates MANIFEST.json from spec/meta.json (claimed checks) and the not_applicable table below."""
import json, subprocess
meta = json.load(open('/verif/spec/meta.json'))
props = [json.loads(l) for l in open('/verif/properties.jsonl')]
NA = json.load(open('/verif/spec/not_applicable.json'))
hooks = subprocess.run(['git','-C','/repo','log','--format=%H %s'],capture_output=True,text=True).stdout.splitlines()
hook_commits = [l.split()[0] for l in hooks if l.split(' ',1)[1].startswith('verif:')]
checks = []
for p in props:
    pid = p['id']
    if pid not in meta: continue
    m = meta[pid]
    checks.append({
        "property_id": pid,
        "quick_cmd": "bin/verif check %s --tier quick" % pid,
        "thorough_cmd": "bin/verif check %s --tier thorough" % pid,
        "evidence_file": "/verif/evidence/%s.json" % pid,
        "replay_cmd_template": "bin/verif replay {path}",
        "engine": "verif",
        "level_claimed": {"category": m.get("category", "proof"), "text": m["text"], "design_ref": "DESIGN.md section 7, " + pid},
        "level_note": "; ".join(m.get("assumptions", [])) + ". " + meta["common_note"],
        "technique": m["technique"],
    })
man = {
 "version": 1,
 "setup_cmd": "cd /verif/cmd/verif && GOFLAGS=-mod=mod GOPROXY=off GOSUMDB=off GOTOOLCHAIN=local go build -o /verif/bin/verif .",
 "hooks": {"guard": "verif", "enable": "-tags=verif: comment-only contract files contracts_*_verif.go (//go:build verif); nothing is compiled differently, the checks read the //@ comments",
           "baseline_off_cmd": "cd /repo && go test -vet=off -count=1 -timeout 25m ./...", "source_commits": hook_commits, "add_only": True},
 "engines": [{"name": "verif", "path": "/verif/cmd/verif", "serves_properties": [c["property_id"] for c in checks],
              "kind_free_text": "self-written verification-condition generator (weakest preconditions by symbolic execution with state merging over go/ast+go/types of the real /repo sources, re-loaded on every run); contracts as //@ comments in //go:build verif files; obligations discharged by racing z3 4.8.12, z3 5.1.0 and cvc5 1.0.3"}],
 "checks": checks,
 "not_applicable": [{"property_id": p['id'], "reason": NA[p['id']]} for p in props if p['id'] not in meta],
 "notes": "Exit status of a check: 0 all obligations of the property discharged (KNOWN-FINDING lines for listed findings), 1 with VIOLATION lines for an obligation that no longer discharges, 2 with UNDECIDED lines when the engine cannot process the tree (unsupported construct, contract without function). known_findings.json lists recorded and fixed defects.",
}
json.dump(man, open('/verif/MANIFEST.json','w'), indent=1)
print(len(checks), "checks;", len(man["not_applicable"]), "not applicable")
