package main

import (
	"sync"
	"fmt"
	"go/ast"
	"go/token"
	"go/types"
	"os"
	"path/filepath"
	"runtime/debug"
	"sort"
	"strings"

	"golang.org/x/tools/go/packages"
)

func loadProgram(repo, goos string, patterns []string) (*Program, error) {
	fset := token.NewFileSet()
	cfg := &packages.Config{
		Mode:       packages.NeedName | packages.NeedSyntax | packages.NeedTypes | packages.NeedTypesInfo | packages.NeedFiles | packages.NeedImports | packages.NeedDeps | packages.NeedCompiledGoFiles,
		Dir:        repo,
		Fset:       fset,
		BuildFlags: []string{"-tags=verif"},
		Env:        append(os.Environ(), "GOOS="+goos, "GOARCH=amd64", "CGO_ENABLED=0", "GOFLAGS=-mod=mod", "GOPROXY=off", "GOSUMDB=off", "GOTOOLCHAIN=local"),
	}
	pkgs, err := packages.Load(cfg, patterns...)
	if err != nil {
		return nil, err
	}
	prog := &Program{Fset: fset, Funcs: map[string]*FuncInfo{}, FuncsByObj: map[*types.Func]*FuncInfo{}, Contracts: newContracts(), GOOS: goos, Pkgs: pkgs}
	for _, p := range pkgs {
		if len(p.Errors) > 0 {
			return nil, fmt.Errorf("package %s: %v", p.PkgPath, p.Errors[0])
		}
		if prog.Main == nil {
			prog.Main = p
		}
		if p == prog.Main {
			mainPkgPaths.Store(p.PkgPath, "")
		} else {
			mainPkgPaths.Store(p.PkgPath, p.Name+".")
		}
		for _, f := range p.Syntax {
			for _, d := range f.Decls {
				fd, ok := d.(*ast.FuncDecl)
				if !ok || fd.Body == nil {
					continue
				}
				obj, _ := p.TypesInfo.Defs[fd.Name].(*types.Func)
				if obj == nil {
					continue
				}
				fi := &FuncInfo{Key: funcKeyOf(obj), Decl: fd, Obj: obj, Pkg: p, LoopOrd: loopOrdinals(fd.Body)}
				prog.Funcs[fi.Key] = fi
				prog.FuncsByObj[obj] = fi
			}
		}
		// contract files of this package
		for _, gf := range p.CompiledGoFiles {
			if strings.HasSuffix(gf, "_verif.go") {
				if err := prog.Contracts.loadFile(gf); err != nil {
					return nil, err
				}
			}
		}
	}
	// trusted externals
	specs, _ := filepath.Glob(filepath.Join(verifRoot(), "spec", "*.spec"))
	sort.Strings(specs)
	for _, s := range specs {
		if err := prog.Contracts.loadFile(s); err != nil {
			return nil, err
		}
	}
	return prog, nil
}

func verifRoot() string {
	if r := os.Getenv("VERIF_ROOT"); r != "" {
		return r
	}
	return "/verif"
}

func (p *Program) pkgOf(fi *FuncInfo) *packages.Package { return fi.Pkg }

// contractKeyFor maps a FuncInfo to its contract key ("ztest.GetOpCodes" for other packages).
func (p *Program) contractFor(fi *FuncInfo) *FuncContract {
	return p.Contracts.Funcs[fi.Key]
}

// verifyFunc generates all obligations of one function under one mode.
func verifyFunc(prog *Program, fi *FuncInfo, fc *FuncContract, mode *ModeDef) (res *VerifyResult) {
	res = &VerifyResult{Func: fi.Key}
	x := newExec(prog, fi.Pkg)
	x.top, x.topC = fi, fc
	x.mathInt = fc.MathInt
	if mode != nil {
		x.mode = mode.Name
		res.Mode = mode.Name
		if mode.Assume != nil {
			x.modeTags = mode.Assume.Tags
		}
	}
	// every mode name of any contract is a known flag (false unless it is the mode being verified)
	for _, c := range prog.Contracts.Funcs {
		for _, m := range c.Modes {
			x.modeFlags[m.Name] = false
		}
	}
	for _, m := range fc.Modes {
		x.modeFlags[m.Name] = mode != nil && m.Name == mode.Name
	}
	tagset := map[string]bool{}
	for _, cl := range append(append([]*Clause{}, fc.Requires...), fc.Ensures...) {
		for _, t := range cl.Tags {
			tagset[t] = true
		}
	}
	for _, l := range fc.Loops {
		for _, cl := range append(append([]*Clause{}, l.Invs...), l.Exits...) {
			for _, t := range cl.Tags {
				tagset[t] = true
			}
		}
	}
	for _, ca := range append(append([]CallAssert{}, fc.CallAsserts...), fc.CallbackInvs...) {
		for _, t := range ca.Clause.Tags {
			tagset[t] = true
		}
	}
	for _, c := range fc.AtReturn {
		for _, t := range c.Tags {
			tagset[t] = true
		}
	}
	if s := fc.Opts["safety"]; s != "" {
		tagset = map[string]bool{}
		for _, t := range strings.FieldsFunc(s, func(r rune) bool { return r == ',' || r == ' ' }) {
			tagset[t] = true
		}
	}
	for t := range tagset {
		if strings.HasPrefix(t, "C") {
			x.safetyTags = append(x.safetyTags, t)
		}
	}
	sort.Strings(x.safetyTags)
	defer func() {
		if r := recover(); r != nil {
			if u, ok := r.(unsupported); ok {
				res.Err = "unsupported: " + u.msg
			} else {
				res.Err = fmt.Sprintf("engine panic: %v\n%s", r, debug.Stack())
			}
		}
		res.Obligations = x.vc.obls
		for a := range x.abstractions {
			res.Abstractions = append(res.Abstractions, a)
		}
		sort.Strings(res.Abstractions)
	}()

	sig := fi.Obj.Type().(*types.Signature)
	if why := staleSignature(fc, sig); why != "" {
		// a contract is a statement about one interface; when the function's parameters or results changed, the
		// statement is about something else: undecided, never a violation
		panic(unsupported{"the contract of " + fc.Key + " is stale: " + why})
	}
	st := newState()
	// spec function axioms
	// ghosts
	for name := range prog.Contracts.Ghosts {
		x.ghostKey(name)
	}
	for _, gv := range fc.GhostVars {
		s := x.parseGhostSort(gv.Sort)
		key := "gv:" + gv.Name
		srt := s
		x.registerHeap(key, func() Value { return x.vc.freshBase("gv."+gv.Name, srt) })
	}
	fr := &Frame{fi: fi, sig: sig, contract: fc, loopOrd: fi.LoopOrd, name: fi.Key}
	ro, ps, rs := x.paramObjs(fi.Decl.Type, fi.Decl.Recv)
	var recv Value
	if sig.Recv() != nil {
		recv = x.freshTyped(sig.Recv().Type(), "recv", st)
		if ro != nil {
			st.vars[ro] = recv
		}
		fr.recvTV = &TV{V: recv, T: sig.Recv().Type()}
	}
	var args []Value
	for i := 0; i < sig.Params().Len(); i++ {
		a := x.freshTyped(sig.Params().At(i).Type(), "arg."+sig.Params().At(i).Name(), st)
		args = append(args, a)
		if i < len(ps) && ps[i] != nil {
			st.vars[ps[i]] = a
		}
	}
	fr.results = rs
	for _, r := range rs {
		if r != nil {
			st.vars[r] = x.zeroValue(r.Type())
		}
	}
	// references coming in are nil or allocated
	assumeAlloc := func(v Value) {
		vLeaves(v, func(t Term) {
			if t.T.K == SRef {
				x.assume(st, tOr(tEq(t, tNil), x.allocatedTerm(st, t)))
			}
		})
	}
	if recv != nil {
		assumeAlloc(recv)
		if r, ok := recv.(Term); ok {
			if _, isPtr := sig.Recv().Type().Underlying().(*types.Pointer); isPtr {
				x.assume(st, tNe(r, tNil))
			}
		}
	}
	for _, a := range args {
		assumeAlloc(a)
	}
	x.useStrings = fc.Opts["strings"] != ""
	if sp := fc.Opts["split"]; sp != "" {
		// split=<param or receiver name>:<low bits>
		f := strings.SplitN(sp, ":", 2)
		var target Value
		if ro != nil && ro.Name() == f[0] {
			target = recv
		}
		for i, p := range ps {
			if p != nil && p.Name() == f[0] {
				target = args[i]
			}
		}
		t, ok := target.(Term)
		if !ok || len(f) != 2 {
			panic(unsupported{"opt split: no scalar parameter " + f[0]})
		}
		x.splitVar = t.S
		fmt.Sscanf(f[1], "%d", &x.splitBits)
	}
	x.frames = []*Frame{fr}
	st.defers = [][]*deferRec{nil}
	// ghost variable initial values
	for _, gv := range fc.GhostVars {
		if gv.Init != nil {
			env := x.contractEnv(fc, fi, sig, recv, args, nil, st, st)
			v := x.specValue(gv.Init, env)
			x.setHeap(st, "gv:"+gv.Name, x.coerceGhost(v.V, "gv:"+gv.Name, st))
		}
	}
	// axioms
	for _, ax := range prog.Contracts.Axioms {
		env := &SpecEnv{x: x, vars: map[string]TV{}, st: st, old: st, noLocals: true}
		func() {
			defer func() {
				if r := recover(); r != nil {
					// axioms about types absent in this GOOS are skipped
				}
			}()
			x.vc.assume(x.specTerm(ax.Expr, env))
		}()
	}
	if mode != nil && mode.Assume != nil {
		env := x.contractEnv(fc, fi, sig, recv, args, nil, st, st)
		x.assume(st, x.specTerm(mode.Assume.Expr, env))
	}
	env0 := x.contractEnv(fc, fi, sig, recv, args, nil, st, st)
	for _, rq := range fc.Requires {
		x.assume(st, x.specTerm(rq.Expr, env0))
	}
	for _, l := range x.lockClasses() {
		x.setHeap(st, x.didLockKey(l), tFalse)
	}
	if fc.Thread {
		// a new goroutine holds exactly the tokens handed to it
		for _, tok := range allTokens(prog.Contracts) {
			has := false
			for _, c := range fc.Consumes {
				if c == tok {
					has = true
				}
			}
			if !has {
				x.setHeap(st, x.tokKey(tok), tFalse)
			}
		}
	}
	x.entry = st.clone()
	heldAtEntry := map[string]Term{}
	for _, l := range x.lockClasses() {
		heldAtEntry[l] = x.heldTerm(st, l)
	}

	x.block(fi.Decl.Body.List, st)
	if !st.dead {
		var vals []Value
		for _, o := range fr.results {
			if o != nil {
				vals = append(vals, st.vars[o])
			}
		}
		if len(vals) != sig.Results().Len() {
			vals = nil
		}
		x.doReturn(st, vals)
	}
	for _, c := range fc.AtReturn {
		if x.atReturnHits[c] == 0 {
			panic(unsupported{"atreturn clause applies at no return statement (its locals are never in scope): " + c.Src})
		}
	}
	final := newState()
	resv := x.joinReturns(fr, sig, final)
	if final.dead {
		// function never returns (e.g. infinite loop without exit): nothing to check at exit
		return res
	}
	var results []Value
	switch v := resv.(type) {
	case nil:
	case TupleV:
		results = v
	default:
		results = []Value{v}
	}
	envF := x.contractEnv(fc, fi, sig, recv, args, results, final, x.entry)
	for _, ef := range fc.Effects {
		v := x.specValue(ef.Expr, envF)
		key := x.effectKey(ef.Var)
		x.setHeap(final, key, x.coerceGhost(v.V, key, final))
	}
	// replayable (pure) functions: the same clauses over free result constants, for checking real outputs
	var ri *replayInfo
	var envR *SpecEnv
	if fc.Opts["replay"] != "" && x.vc.silent == 0 {
		ri = &replayInfo{Func: fi.Obj.Name(), Pkg: fi.Pkg.Name, PkgDir: filepath.Dir(prog.Fset.Position(fi.Decl.Pos()).Filename)}
		if sig.Recv() != nil {
			ri.Recv = &replayVal{Name: "recv", GoType: types.TypeString(sig.Recv().Type(), func(p *types.Package) string { return "" }), V: recv}
		}
		for i := 0; i < sig.Params().Len(); i++ {
			ri.Params = append(ri.Params, replayVal{Name: sig.Params().At(i).Name(), GoType: types.TypeString(sig.Params().At(i).Type(), func(p *types.Package) string { return "" }), V: args[i]})
		}
		var rvals []Value
		for i := 0; i < sig.Results().Len(); i++ {
			rv := x.freshValue(sig.Results().At(i).Type(), "R")
			rvals = append(rvals, rv)
			ri.Results = append(ri.Results, replayVal{Name: fmt.Sprintf("r%d", i), GoType: types.TypeString(sig.Results().At(i).Type(), func(p *types.Package) string { return "" }), V: rv})
		}
		envR = x.contractEnv(fc, fi, sig, recv, args, rvals, x.entry, x.entry)
	}
	for _, en := range fc.Ensures {
		parts := x.specConjuncts(en.Expr, envF)
		var rparts []goalPart
		if envR != nil {
			func() {
				defer func() { recover() }()
				rparts = x.specConjuncts(en.Expr, envR)
			}()
		}
		for gi, g := range parts {
			n0 := len(x.vc.obls)
			x.assert(final, "post", g.label(en.Label), g.t, en.Tags, fi.Decl.End())
			if len(x.vc.obls) > n0 && gi < len(rparts) && len(rparts) == len(parts) {
				t := rparts[gi].t
				x.vc.obls[n0].ReplayGoal = &t
				x.vc.obls[n0].Replay = ri
				x.vc.obls[n0].ReplayClause = &replayClause{Expr: en.Expr, Lets: fc.Lets, RecvName: fc.RecvName, ParamNames: fc.ParamNames, ResultNames: fc.ResultNames,
					Preds: prog.Contracts.Preds, Scope: fi.Pkg.Types.Scope()}
			}
		}
	}
	x.assert(final, "vacuity", "false must not be provable at exit", tFalse, nil, fi.Decl.End())
	for _, l := range x.lockClasses() {
		h0, known := heldAtEntry[l]
		if !known {
			h0 = tFalse // a lock class first met in the body (unknown to the contracts): not held at entry
		}
		x.assertSafety(final, "lock", "lock balance: "+l+" is held at exit exactly if it was at entry", tEq(x.heldTerm(final, l), h0), fi.Decl.End())
	}
	return res
}


// verifyLemmas: obligations over the specification functions alone (no code).
func verifyLemmas(prog *Program, tag string) *VerifyResult {
	res := &VerifyResult{Func: "lemma"}
	var anyFn *FuncInfo
	for _, k := range sortedKeys(prog.Funcs) {
		if prog.Funcs[k].Pkg == prog.Main {
			anyFn = prog.Funcs[k]
			// prefer a function from a file that imports the platform packages
			if strings.HasPrefix(filepath.Base(prog.Fset.Position(anyFn.Decl.Pos()).Filename), "backend_") {
				break
			}
		}
	}
	if anyFn == nil {
		res.Err = "no function to anchor lemmas"
		return res
	}
	x := newExec(prog, prog.Main)
	x.top = &FuncInfo{Key: "lemma", Decl: anyFn.Decl, Obj: anyFn.Obj, Pkg: anyFn.Pkg}
	x.topC = &FuncContract{Key: "lemma"}
	defer func() {
		if r := recover(); r != nil {
			if u, ok := r.(unsupported); ok {
				res.Err = "unsupported: " + u.msg
			} else {
				res.Err = fmt.Sprintf("engine panic: %v\n%s", r, debug.Stack())
			}
		}
		res.Obligations = x.vc.obls
	}()
	st := newState()
	for _, l := range prog.Contracts.Lemmas {
		if tag != "" && !hasTag(l.Tags, tag) {
			continue
		}
		env := &SpecEnv{x: x, vars: map[string]TV{}, st: st, old: st, noLocals: true}
		for _, g := range x.specConjuncts(l.Expr, env) {
			x.assert(st, "lemma", g.label(l.Label), g.t, l.Tags, token.NoPos)
		}
	}
	return res
}


func allTokens(cs *Contracts) []string {
	set := map[string]bool{}
	for _, ts := range cs.AllocGrants {
		for _, t := range ts {
			set[t] = true
		}
	}
	for _, a := range cs.Chans {
		if a.Closer != "" {
			set[a.Closer] = true
		}
		if a.Sender != "" {
			set[a.Sender] = true
		}
	}
	for _, t := range cs.Confined {
		set[t] = true
	}
	for _, fc := range cs.Funcs {
		for _, t := range fc.Consumes {
			set[t] = true
		}
		for _, e := range fc.Effects {
			if strings.HasPrefix(e.Var, "tok:") {
				set[e.Var[4:]] = true
			}
		}
	}
	return sortedKeys(set)
}


// structureObligations: syntactic facts the proofs rely on, re-checked on every run:
// a package-level variable declared `pkgimmutable` is assigned (or has its address taken) by no non-test code.
func structureObligations(prog *Program, tag string) []*Obligation {
	var out []*Obligation
	info := prog.Main.TypesInfo
	for _, c := range prog.Contracts.PkgImmutable {
		if tag != "" && !hasTag(c.Tags, tag) {
			continue
		}
		name := c.Src
		obj := prog.Main.Types.Scope().Lookup(name)
		o := &Obligation{Func: "structure", Kind: "structure", Label: "package variable " + name + " is assigned by no non-test code", Tags: c.Tags,
			Name: "structure[package variable " + name + " is assigned by no non-test code]", Trivial: true, Result: "unsat", Solver: "syntactic scan"}
		if obj == nil {
			// not declared in this build: nothing to protect
			out = append(out, o)
			continue
		}
		isIt := func(e ast.Expr) bool {
			id, ok := unparen(e).(*ast.Ident)
			return ok && info.ObjectOf(id) == obj
		}
		for _, f := range prog.Main.Syntax {
			fn := prog.Fset.Position(f.Pos()).Filename
			if strings.HasSuffix(fn, "_test.go") {
				continue
			}
			ast.Inspect(f, func(n ast.Node) bool {
				bad := false
				switch st := n.(type) {
				case *ast.AssignStmt:
					for _, l := range st.Lhs {
						if isIt(l) {
							bad = true
						}
					}
				case *ast.IncDecStmt:
					bad = isIt(st.X)
				case *ast.UnaryExpr:
					bad = st.Op == token.AND && isIt(st.X)
				}
				if bad {
					o.Result = "sat"
					o.Trivial = false
					o.Solver = "syntactic scan"
					o.Pos = prog.Fset.Position(n.Pos())
					o.Model = fmt.Sprintf("%s is written at %s", name, o.Pos)
				}
				return true
			})
		}
		out = append(out, o)
	}
	for _, c := range prog.Contracts.Impls {
		if tag != "" && !hasTag(c.Tags, tag) {
			continue
		}
		out = append(out, implObligation(prog, c))
	}
	if tag == "" || tag == "C14" {
		out = append(out, noPackageStateObligation(prog))
	}
	return out
}

// noPackageStateObligation (C14): the package keeps no mutable state outside its Watcher objects — no package-level
// variable is assigned, incremented, written through (element, field), locked or has its address taken by non-test
// code. Two Watchers then share nothing the contracts do not name, which is what the independence claim rests on.
func noPackageStateObligation(prog *Program) *Obligation {
	label := "the package keeps no mutable state outside its Watcher objects (no package-level variable is written by non-test code)"
	o := &Obligation{Func: "structure", Kind: "structure", Label: label, Tags: []string{"C14"}, Name: "structure[" + label + "]", Trivial: true, Result: "unsat", Solver: "syntactic scan"}
	ws := scanPkgVarWrites(prog)
	var names []string
	for obj := range ws {
		names = append(names, obj.Name())
	}
	sort.Strings(names)
	for obj, w := range ws {
		if obj.Name() == names[0] {
			o.Result, o.Trivial = "sat", false
			o.Pos = w.pos
			o.Model = fmt.Sprintf("package-level variable %s is %s at %s", obj.Name(), w.how, w.pos)
		}
	}
	return o
}

type pkgVarWrite struct {
	how string
	pos token.Position
}

var pkgWriteCache sync.Map // *Program -> map[types.Object]pkgVarWrite

// scanPkgVarWrites: every package-level variable of the main package that non-test code assigns, increments, writes
// through (element, field), locks (pointer-receiver method) or takes the address of — with the first place it does.
func scanPkgVarWrites(prog *Program) map[types.Object]pkgVarWrite {
	if v, ok := pkgWriteCache.Load(prog); ok {
		return v.(map[types.Object]pkgVarWrite)
	}
	info := prog.Main.TypesInfo
	scope := prog.Main.Types.Scope()
	out := map[types.Object]pkgVarWrite{}
	isPkgVar := func(e ast.Expr) (types.Object, bool) {
		for {
			switch v := e.(type) {
			case *ast.ParenExpr:
				e = v.X
				continue
			case *ast.IndexExpr:
				e = v.X
				continue
			case *ast.StarExpr:
				e = v.X
				continue
			case *ast.SelectorExpr:
				if id, ok := v.X.(*ast.Ident); ok {
					if _, isPkg := info.Uses[id].(*types.PkgName); isPkg {
						return nil, false // another package's variable
					}
				}
				e = v.X
				continue
			case *ast.Ident:
				obj := info.ObjectOf(v)
				if vr, ok := obj.(*types.Var); ok && !vr.IsField() && vr.Parent() == scope {
					return obj, true
				}
				return nil, false
			}
			return nil, false
		}
	}
	bad := func(n ast.Node, obj types.Object, how string) {
		if _, seen := out[obj]; !seen {
			out[obj] = pkgVarWrite{how, prog.Fset.Position(n.Pos())}
		}
	}
	for _, f := range prog.Main.Syntax {
		if strings.HasSuffix(prog.Fset.Position(f.Pos()).Filename, "_test.go") {
			continue
		}
		for _, d := range f.Decls {
			fd, ok := d.(*ast.FuncDecl)
			if !ok || fd.Body == nil {
				continue // initialisers of package-level declarations are not writes after initialisation
			}
			ast.Inspect(fd.Body, func(n ast.Node) bool {
				switch st := n.(type) {
				case *ast.AssignStmt:
					for _, l := range st.Lhs {
						if obj, ok := isPkgVar(l); ok {
							bad(n, obj, "assigned")
						}
					}
				case *ast.IncDecStmt:
					if obj, ok := isPkgVar(st.X); ok {
						bad(n, obj, "incremented")
					}
				case *ast.UnaryExpr:
					if st.Op == token.AND {
						if obj, ok := isPkgVar(st.X); ok {
							bad(n, obj, "aliased (address taken)")
						}
					}
				case *ast.CallExpr:
					// a method with a pointer receiver called on a package-level variable (mu.Lock(), buf.Write(...))
					if se, ok := st.Fun.(*ast.SelectorExpr); ok {
						if sel := info.Selections[se]; sel != nil && sel.Kind() == types.MethodVal {
							if fn, ok := sel.Obj().(*types.Func); ok {
								if sig, ok := fn.Type().(*types.Signature); ok && sig.Recv() != nil {
									if _, ptr := sig.Recv().Type().(*types.Pointer); ptr {
										if _, isPtrVar := info.TypeOf(se.X).(*types.Pointer); !isPtrVar {
											if obj, ok := isPkgVar(se.X); ok {
												bad(n, obj, "modified through the pointer-receiver method "+fn.Name())
											}
										}
									}
								}
							}
						}
					}
				case *ast.SliceExpr:
					// a slice of a package-level array aliases it
					if _, isArr := info.TypeOf(st.X).Underlying().(*types.Array); isArr {
						if obj, ok := isPkgVar(st.X); ok {
							bad(n, obj, "aliased (sliced)")
						}
					}
				case *ast.RangeStmt:
					if st.Tok == token.ASSIGN {
						for _, l := range []ast.Expr{st.Key, st.Value} {
							if l != nil {
								if obj, ok := isPkgVar(l); ok {
									bad(n, obj, "assigned by a range clause")
								}
							}
						}
					}
				}
				return true
			})
		}
	}
	pkgWriteCache.Store(prog, out)
	return out
}

// implObligation: `impl S.f *T` — every non-test write of field f of S stores a value that is statically a *T:
// an expression of that type, or the result of a package function all of whose returns give nil or a *T.
func implObligation(prog *Program, c *Clause) *Obligation {
	info := prog.Main.TypesInfo
	fs := strings.Fields(c.Src)
	owner, field := fs[0][:strings.Index(fs[0], ".")], fs[0][strings.Index(fs[0], ".")+1:]
	want := strings.TrimPrefix(fs[1], "*")
	label := "field " + fs[0] + " only ever holds a " + fs[1]
	o := &Obligation{Func: "structure", Kind: "structure", Label: label, Tags: c.Tags, Name: "structure[" + label + "]", Trivial: true, Result: "unsat", Solver: "syntactic scan"}
	isT := func(t types.Type) bool {
		p, ok := t.(*types.Pointer)
		if !ok {
			return false
		}
		n, ok := p.Elem().(*types.Named)
		return ok && n.Obj().Name() == want
	}
	funcOK := func(fn *types.Func) bool {
		for _, f := range prog.Main.Syntax {
			for _, d := range f.Decls {
				fd, ok := d.(*ast.FuncDecl)
				if !ok || info.Defs[fd.Name] != fn || fd.Body == nil {
					continue
				}
				ok2 := true
				ast.Inspect(fd.Body, func(n ast.Node) bool {
					if _, isLit := n.(*ast.FuncLit); isLit {
						return false
					}
					if r, isRet := n.(*ast.ReturnStmt); isRet {
						if len(r.Results) == 0 {
							ok2 = false
						} else if tv, has := info.Types[r.Results[0]]; !has || !(tv.IsNil() || isT(tv.Type)) {
							ok2 = false
						}
					}
					return true
				})
				return ok2
			}
		}
		return false
	}
	var valueOK func(e ast.Expr, depth int) bool
	valueOK = func(e ast.Expr, depth int) bool {
		e = unparen(e)
		if tv, has := info.Types[e]; has && isT(tv.Type) {
			return true
		}
		if depth > 3 {
			return false
		}
		switch v := e.(type) {
		case *ast.CallExpr:
			if id, ok := unparen(v.Fun).(*ast.Ident); ok {
				if fn, ok := info.Uses[id].(*types.Func); ok {
					return funcOK(fn)
				}
			}
		case *ast.Ident:
			obj := info.Uses[v]
			if obj == nil {
				return false
			}
			// the single definition `v, ... := call(...)`, never reassigned
			var def ast.Expr
			n := 0
			for _, f := range prog.Main.Syntax {
				ast.Inspect(f, func(nd ast.Node) bool {
					as, ok := nd.(*ast.AssignStmt)
					if !ok {
						return true
					}
					for i, l := range as.Lhs {
						id, ok := l.(*ast.Ident)
						if !ok || (info.Defs[id] != obj && info.Uses[id] != obj) {
							continue
						}
						n++
						if len(as.Rhs) == 1 {
							def = as.Rhs[0]
						} else if i < len(as.Rhs) {
							def = as.Rhs[i]
						}
					}
					return true
				})
			}
			if n == 1 && def != nil {
				return valueOK(def, depth+1)
			}
		}
		return false
	}
	isField := func(obj types.Object) bool {
		v, ok := obj.(*types.Var)
		if !ok || !v.IsField() || v.Name() != field {
			return false
		}
		ot := prog.Main.Types.Scope().Lookup(owner)
		if ot == nil {
			return false
		}
		st, ok := ot.Type().Underlying().(*types.Struct)
		if !ok {
			return false
		}
		for i := 0; i < st.NumFields(); i++ {
			if st.Field(i) == v {
				return true
			}
		}
		return false
	}
	bad := func(n ast.Node, why string) {
		o.Result, o.Trivial = "sat", false
		o.Pos = prog.Fset.Position(n.Pos())
		o.Model = fmt.Sprintf("%s is given %s at %s", fs[0], why, o.Pos)
	}
	for _, f := range prog.Main.Syntax {
		if strings.HasSuffix(prog.Fset.Position(f.Pos()).Filename, "_test.go") {
			continue
		}
		ast.Inspect(f, func(n ast.Node) bool {
			switch st := n.(type) {
			case *ast.AssignStmt:
				for i, l := range st.Lhs {
					se, ok := unparen(l).(*ast.SelectorExpr)
					if !ok || !isField(info.Uses[se.Sel]) {
						continue
					}
					if len(st.Rhs) != len(st.Lhs) || !valueOK(st.Rhs[i], 0) {
						bad(n, "a value not known to be a "+fs[1])
					}
				}
			case *ast.UnaryExpr:
				if se, ok := unparen(st.X).(*ast.SelectorExpr); ok && st.Op == token.AND && isField(info.Uses[se.Sel]) {
					bad(n, "an alias (its address is taken)")
				}
			case *ast.CompositeLit:
				tv, has := info.Types[st]
				if !has {
					return true
				}
				t := tv.Type
				if p, ok := t.(*types.Pointer); ok {
					t = p.Elem()
				}
				nm, ok := t.(*types.Named)
				if !ok || nm.Obj().Name() != owner {
					return true
				}
				sty := nm.Underlying().(*types.Struct)
				for i, el := range st.Elts {
					if kv, ok := el.(*ast.KeyValueExpr); ok {
						if id, ok := kv.Key.(*ast.Ident); ok && id.Name == field && !valueOK(kv.Value, 0) {
							bad(el, "a value not known to be a "+fs[1])
						}
					} else if i < sty.NumFields() && sty.Field(i).Name() == field && !valueOK(el, 0) {
						bad(el, "a value not known to be a "+fs[1])
					}
				}
			}
			return true
		})
	}
	return o
}


// vacuousCovers: reachability covers are grouped by (function, mode, label); a group is vacuous only if every
// member is provably unreachable (a call site that is dead in one mode, or one of several sites of the same
// callee, does not make the call-site clause say nothing).
func vacuousCovers(obls []*Obligation) []*Obligation {
	type grp struct {
		first      *Obligation
		allUnreach bool
	}
	groups := map[string]*grp{}
	var order []string
	for _, o := range obls {
		if o.Kind != "vacuity" {
			continue
		}
		k := o.Func + "|" + o.Mode + "|" + o.Label
		g, ok := groups[k]
		if !ok {
			g = &grp{first: o, allUnreach: true}
			groups[k] = g
			order = append(order, k)
		}
		if o.Result != "unsat" {
			g.allUnreach = false
		}
	}
	var out []*Obligation
	for _, k := range order {
		if groups[k].allUnreach {
			out = append(out, groups[k].first)
		}
	}
	return out
}


// staleSignature: the `func` directive of a contract lists parameters/results, and their number differs from the code's.
func staleSignature(fc *FuncContract, sig *types.Signature) string {
	if fc == nil || fc.Trusted {
		return ""
	}
	if len(fc.ParamNames) > 0 && len(fc.ParamNames) != sig.Params().Len() {
		return fmt.Sprintf("it was written for %d parameter(s), the function now has %d", len(fc.ParamNames), sig.Params().Len())
	}
	if len(fc.ResultNames) > 0 && len(fc.ResultNames) != sig.Results().Len() {
		return fmt.Sprintf("it was written for %d result(s), the function now has %d", len(fc.ResultNames), sig.Results().Len())
	}
	// the kind of each parameter/result as the directive wrote it (last path element of the type, pointer/slice marks)
	short := func(t types.Type) string {
		s := types.TypeString(t, func(*types.Package) string { return "" })
		return s
	}
	norm := func(s string) string {
		s = strings.TrimSpace(s)
		s = strings.TrimPrefix(s, "...")
		// drop package qualifiers: fs.DirEntry -> DirEntry, *unix.InotifyEvent -> *InotifyEvent
		var b strings.Builder
		i := 0
		for i < len(s) {
			j := i
			for j < len(s) && (s[j] == '_' || s[j] >= 'a' && s[j] <= 'z' || s[j] >= 'A' && s[j] <= 'Z' || s[j] >= '0' && s[j] <= '9') {
				j++
			}
			if j < len(s) && s[j] == '.' && j > i {
				i = j + 1
				continue
			}
			if j == i {
				b.WriteByte(s[i])
				i++
				continue
			}
			b.WriteString(s[i:j])
			i = j
		}
		return strings.ReplaceAll(b.String(), " ", "")
	}
	for i := 0; i < len(fc.ParamTypes) && i < sig.Params().Len(); i++ {
		if fc.ParamTypes[i] == "" {
			continue
		}
		at := sig.Params().At(i).Type()
		if sig.Variadic() && i == sig.Params().Len()-1 {
			if sl, ok := at.(*types.Slice); ok {
				at = sl.Elem()
			}
		}
		if a, d := norm(short(at)), norm(fc.ParamTypes[i]); a != d {
			return fmt.Sprintf("parameter %d was %s when it was written and is %s now", i+1, d, a)
		}
	}
	for i := 0; i < len(fc.ResultTypes) && i < sig.Results().Len(); i++ {
		if fc.ResultTypes[i] == "" {
			continue
		}
		if a, d := norm(short(sig.Results().At(i).Type())), norm(fc.ResultTypes[i]); a != d {
			return fmt.Sprintf("result %d was %s when it was written and is %s now", i+1, d, a)
		}
	}
	return ""
}
