package main

import (
	"sync/atomic"
	"bytes"
	"context"
	"fmt"
	"os/exec"
	"strings"
	"sync"
	"time"
)

type solverDef struct {
	name string
	cmd  func(timeoutSec int, seed int) []string
	pre  func(seed int) string
}

var solvers = []solverDef{
	{name: "z3-4.8.12", cmd: func(t, seed int) []string { return []string{"z3", "-in", "-smt2", fmt.Sprintf("-T:%d", t)} },
		pre: func(seed int) string {
			if seed == 0 {
				return ""
			}
			return fmt.Sprintf("(set-option :smt.random_seed %d)\n(set-option :sat.random_seed %d)\n", seed, seed)
		}},
	{name: "z3-5.1.0", cmd: func(t, seed int) []string { return []string{"z3-new", "-in", "-smt2", fmt.Sprintf("-T:%d", t)} },
		pre: func(seed int) string {
			if seed == 0 {
				return ""
			}
			return fmt.Sprintf("(set-option :smt.random_seed %d)\n(set-option :sat.random_seed %d)\n", seed, seed)
		}},
	{name: "cvc5-1.0.3", cmd: func(t, seed int) []string {
		return []string{"cvc5", "--lang=smt2", fmt.Sprintf("--tlimit=%d", t*1000), fmt.Sprintf("--seed=%d", seed), "--strings-exp"}
	}, pre: func(int) string { return "" }},
}

type solveOut struct {
	solver string
	status string // unsat sat unknown timeout error
	output string
	ms     int64
}

func runSolver(ctx context.Context, sd solverDef, query string, timeoutSec, seed int) solveOut {
	args := sd.cmd(timeoutSec, seed)
	cctx, cancel := context.WithTimeout(ctx, time.Duration(timeoutSec+2)*time.Second)
	defer cancel()
	cmd := exec.CommandContext(cctx, args[0], args[1:]...)
	q := query
	if strings.HasPrefix(sd.name, "cvc5") {
		// cvc5 wants produce-models before set-logic; our queries already order it so
	} else {
		q = sd.pre(seed) + q
	}
	cmd.Stdin = strings.NewReader(q)
	var out bytes.Buffer
	cmd.Stdout = &out
	cmd.Stderr = &out
	t0 := time.Now()
	err := cmd.Run()
	ms := time.Since(t0).Milliseconds()
	text := out.String()
	first := ""
	for _, ln := range strings.Split(text, "\n") {
		ln = strings.TrimSpace(ln)
		if ln == "" || strings.HasPrefix(ln, "WARNING") {
			continue
		}
		first = ln
		break
	}
	so := solveOut{solver: sd.name, output: text, ms: ms}
	switch first {
	case "unsat", "sat", "unknown", "timeout":
		so.status = first
	default:
		if ctx.Err() != nil || cctx.Err() != nil {
			so.status = "timeout"
		} else if err != nil || strings.Contains(first, "error") {
			so.status = "error"
		} else {
			so.status = "unknown"
		}
	}
	return so
}

var procSem = make(chan struct{}, 16)

// discharge races the solvers on one obligation.
// dischargeDeadline bounds the wall-clock time one check spends in the solvers (set by runCheck). An obligation not
// attempted before it is left open with solver "budget": undecided, never a violation.
var dischargeDeadline time.Time

func pastDeadline() bool { return !dischargeDeadline.IsZero() && time.Now().After(dischargeDeadline) }

func discharge(o *Obligation, timeoutSec int, seed int, wantModel bool) {
	if o.Trivial {
		return
	}
	if pastDeadline() {
		o.Result, o.Solver = "timeout", "budget"
		return
	}
	if o.SplitBits > 0 {
		dischargeSplit(o, timeoutSec, seed)
		return
	}
	query := o.Query(false)
	ctx, cancel := context.WithCancel(context.Background())
	defer cancel()
	results := make(chan solveOut, len(solvers))
	var wg sync.WaitGroup
	start := func(sd solverDef, delay time.Duration) {
		wg.Add(1)
		go func() {
			defer wg.Done()
			if delay > 0 {
				select {
				case <-time.After(delay):
				case <-ctx.Done():
					return
				}
			}
			procSem <- struct{}{}
			defer func() { <-procSem }()
			if ctx.Err() != nil {
				return
			}
			results <- runSolver(ctx, sd, query, timeoutSec, seed)
		}()
	}
	start(solvers[0], 0)
	start(solvers[1], 700*time.Millisecond)
	start(solvers[2], 700*time.Millisecond)
	go func() { wg.Wait(); close(results) }()
	o.Outputs = map[string]string{}
	best := ""
	t0 := time.Now()
	for r := range results {
		o.Outputs[r.solver] = r.status
		if r.status == "error" {
			o.Outputs[r.solver] = "error: " + firstLines(r.output, 3)
		}
		if r.status == "unsat" || r.status == "sat" {
			if best == "" {
				best = r.status
				o.Result = r.status
				o.Solver = r.solver
				o.Ms = time.Since(t0).Milliseconds()
				cancel()
			} else if best != r.status {
				o.Result = "disagree"
			}
		}
	}
	if best == "" {
		o.Result = "unknown"
		for _, s := range o.Outputs {
			if s == "timeout" {
				o.Result = "timeout"
			}
		}
		o.Ms = time.Since(t0).Milliseconds()
	}
	if o.Result == "sat" && wantModel {
		// get a model from z3 4.8.12 (best at models)
		so := runSolver(context.Background(), solvers[0], o.Query(true), timeoutSec, seed)
		if so.status == "sat" {
			o.Model = so.output
		}
	}
}

func firstLines(s string, n int) string {
	ls := strings.Split(strings.TrimSpace(s), "\n")
	if len(ls) > n {
		ls = ls[:n]
	}
	return strings.Join(ls, " | ")
}

func dischargeAll(obls []*Obligation, timeoutSec, seed int, wantModel bool) {
	var wg sync.WaitGroup
	sem := make(chan struct{}, 12)
	for _, o := range obls {
		if o.Trivial || o.vc == nil {
			continue
		}
		wg.Add(1)
		sem <- struct{}{}
		go func(o *Obligation) {
			defer wg.Done()
			defer func() { <-sem }()
			discharge(o, timeoutSec, seed, wantModel)
		}(o)
	}
	wg.Wait()
}


// dischargeSplit decides an obligation by complete case analysis on the low
// bits of one bit-vector input: every value of the input falls in exactly one case.
func dischargeSplit(o *Obligation, timeoutSec, seed int) {
	n := 1 << uint(o.SplitBits)
	o.Cases = n
	type res struct {
		v  int
		so solveOut
	}
	out := make(chan res, n)
	var wg sync.WaitGroup
	t0 := time.Now()
	// once a handful of cases could not be discharged the obligation is open whatever the others say: the remaining
	// cases are skipped (512 cases that each exhaust their budget would otherwise take an hour)
	var open, budget int32
	const enough = 3
	for v := 0; v < n; v++ {
		wg.Add(1)
		go func(v int) {
			defer wg.Done()
			if atomic.LoadInt32(&open) >= enough {
				return
			}
			if pastDeadline() {
				atomic.StoreInt32(&budget, 1)
				return
			}
			c := *o
			c.splitVal = v
			q := c.Query(false)
			procSem <- struct{}{}
			if atomic.LoadInt32(&open) >= enough {
				<-procSem
				return
			}
			if pastDeadline() {
				<-procSem
				atomic.StoreInt32(&budget, 1)
				return
			}
			so := runSolver(context.Background(), solvers[0], q, timeoutSec, seed)
			<-procSem
			defer func() {
				if so.status != "unsat" {
					atomic.AddInt32(&open, 1)
				}
			}()
			if so.status != "unsat" {
				for _, sd := range solvers[1:] {
					if atomic.LoadInt32(&open) >= enough {
						break
					}
					procSem <- struct{}{}
					s2 := runSolver(context.Background(), sd, q, timeoutSec, seed)
					<-procSem
					if s2.status == "unsat" || s2.status == "sat" {
						so = s2
						break
					}
				}
			}
			out <- res{v, so}
		}(v)
	}
	wg.Wait()
	close(out)
	o.Outputs = map[string]string{}
	o.Result = "unsat"
	o.Solver = "z3-4.8.12 (case split)"
	for r := range out {
		if r.so.status != "unsat" {
			if o.Result == "unsat" || r.so.status == "sat" {
				o.Result = r.so.status
				o.Solver = r.so.solver
				o.splitVal = r.v
				o.Model = fmt.Sprintf("case %s & %#x == %#x\n%s", o.SplitVar, n-1, r.v, r.so.output)
			}
			if len(o.Outputs) < 4 {
				o.Outputs[fmt.Sprintf("case %#x", r.v)] = r.so.status
			}
			o.FailedCases++
		}
	}
	if o.Result == "unsat" && atomic.LoadInt32(&budget) != 0 {
		o.Result, o.Solver = "timeout", "budget"
	}
	o.Ms = time.Since(t0).Milliseconds()
}
