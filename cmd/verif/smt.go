package main

// SMT term layer: sorts, terms (as S-expression text with a sort), and the
// constructors the symbolic executor uses. Terms are kept small by naming
// intermediate results (see VC.name).

import (
	"fmt"
	"sync"
	"math/big"
	"strings"
)

type SortKind int

const (
	SBool SortKind = iota
	SBV
	SInt
	SRef // printed as Int; 0 = nil
	SStr // uninterpreted sort Str
	SErr // uninterpreted sort Err
	SArr
	SUnint // other uninterpreted sort (Name)
	SSeqStr
)

type Sort struct {
	K         SortKind
	W         int
	Idx, Elem *Sort
	Name      string
}

var (
	sortBool = &Sort{K: SBool}
	sortInt  = &Sort{K: SInt}
	sortRef  = &Sort{K: SRef}
	sortStr  = &Sort{K: SStr}
	sortErr  = &Sort{K: SErr}
	bvSorts  = map[int]*Sort{}
)

var bvMu sync.Mutex

func sortBV(w int) *Sort {
	bvMu.Lock()
	defer bvMu.Unlock()
	if s, ok := bvSorts[w]; ok {
		return s
	}
	s := &Sort{K: SBV, W: w}
	bvSorts[w] = s
	return s
}

func sortArr(idx, elem *Sort) *Sort { return &Sort{K: SArr, Idx: idx, Elem: elem} }
func sortUnint(name string) *Sort   { return &Sort{K: SUnint, Name: name} }

func (s *Sort) String() string {
	switch s.K {
	case SBool:
		return "Bool"
	case SBV:
		return fmt.Sprintf("(_ BitVec %d)", s.W)
	case SInt, SRef:
		return "Int"
	case SStr:
		return "Str"
	case SErr:
		return "Err"
	case SArr:
		return "(Array " + s.Idx.String() + " " + s.Elem.String() + ")"
	case SUnint:
		return s.Name
	case SSeqStr:
		return "String"
	}
	return "?"
}

func (s *Sort) Eq(o *Sort) bool {
	if s == nil || o == nil {
		return s == o
	}
	return s.String() == o.String()
}

func (s *Sort) isIntLike() bool { return s.K == SInt || s.K == SRef }

// Term is an SMT-LIB term with its sort.
type Term struct {
	S string
	T *Sort
}

func (t Term) String() string { return t.S }

var (
	tTrue  = Term{"true", sortBool}
	tFalse = Term{"false", sortBool}
	tNil   = Term{"0", sortRef}
	tErrNil = Term{"err.nil", sortErr}
)

func mk(t *Sort, op string, args ...Term) Term {
	var b strings.Builder
	b.WriteByte('(')
	b.WriteString(op)
	for _, a := range args {
		b.WriteByte(' ')
		b.WriteString(a.S)
	}
	b.WriteByte(')')
	return Term{b.String(), t}
}

func tAnd(ts ...Term) Term {
	var keep []Term
	for _, t := range ts {
		if t.S == "true" {
			continue
		}
		if t.S == "false" {
			return tFalse
		}
		keep = append(keep, t)
	}
	switch len(keep) {
	case 0:
		return tTrue
	case 1:
		return keep[0]
	}
	return mk(sortBool, "and", keep...)
}

func tOr(ts ...Term) Term {
	var keep []Term
	for _, t := range ts {
		if t.S == "false" {
			continue
		}
		if t.S == "true" {
			return tTrue
		}
		keep = append(keep, t)
	}
	switch len(keep) {
	case 0:
		return tFalse
	case 1:
		return keep[0]
	}
	return mk(sortBool, "or", keep...)
}

func tNot(t Term) Term {
	switch t.S {
	case "true":
		return tFalse
	case "false":
		return tTrue
	}
	if strings.HasPrefix(t.S, "(not ") {
		return Term{t.S[5 : len(t.S)-1], sortBool}
	}
	return mk(sortBool, "not", t)
}

func tImp(a, b Term) Term {
	if a.S == "true" {
		return b
	}
	if a.S == "false" || b.S == "true" {
		return tTrue
	}
	return mk(sortBool, "=>", a, b)
}

func tIte(c, a, b Term) Term {
	if c.S == "true" {
		return a
	}
	if c.S == "false" {
		return b
	}
	if a.S == b.S {
		return a
	}
	return mk(a.T, "ite", c, a, b)
}

func tEq(a, b Term) Term {
	if a.S == b.S {
		return tTrue
	}
	if !a.T.Eq(b.T) && !(a.T.isIntLike() && b.T.isIntLike()) {
		panic(fmt.Sprintf("tEq: sort mismatch %s : %s  vs  %s : %s", a.S, a.T, b.S, b.T))
	}
	return mk(sortBool, "=", a, b)
}

func tNe(a, b Term) Term { return tNot(tEq(a, b)) }

func tSelect(arr, idx Term) Term {
	if arr.T.K != SArr {
		panic("tSelect on non-array " + arr.S + " : " + arr.T.String())
	}
	return mk(arr.T.Elem, "select", arr, idx)
}

func tStore(arr, idx, v Term) Term { return mk(arr.T, "store", arr, idx, v) }

func bvConst(v *big.Int, w int) Term {
	m := new(big.Int).Lsh(big.NewInt(1), uint(w))
	x := new(big.Int).Mod(v, m)
	if w%4 == 0 {
		return Term{fmt.Sprintf("#x%0*s", w/4, x.Text(16)), sortBV(w)}
	}
	return Term{fmt.Sprintf("(_ bv%s %d)", x.String(), w), sortBV(w)}
}

func bvConstI(v int64, w int) Term { return bvConst(big.NewInt(v), w) }

func intConst(v *big.Int) Term {
	if v.Sign() < 0 {
		return Term{"(- " + new(big.Int).Neg(v).String() + ")", sortInt}
	}
	return Term{v.String(), sortInt}
}

func intConstI(v int64) Term { return intConst(big.NewInt(v)) }

// zero value of a scalar sort
func zeroOf(s *Sort) Term {
	switch s.K {
	case SBool:
		return tFalse
	case SBV:
		return bvConstI(0, s.W)
	case SInt:
		return Term{"0", sortInt}
	case SRef:
		return tNil
	case SStr:
		return Term{"str.empty", sortStr}
	case SErr:
		return tErrNil
	case SArr:
		if !isValueSort(s.Elem) {
			// no literal exists for uninterpreted element sorts: an arbitrary (declared) array stands in
			name := "zeroarr." + sanitize(s.String())
			zeroArrDecls.Store(name, "(declare-const "+name+" "+s.String()+")")
			return Term{name, s}
		}
		return Term{"((as const " + s.String() + ") " + zeroOf(s.Elem).S + ")", s}
	case SUnint:
		return Term{"zero!" + s.Name, s}
	}
	panic("zeroOf " + s.String())
}

var zeroArrDecls sync.Map

func isValueSort(s *Sort) bool {
	switch s.K {
	case SBool, SBV, SInt, SRef:
		return true
	case SArr:
		return isValueSort(s.Elem)
	}
	return false
}

// resize a bit-vector (or pass through equal width).
func bvResize(t Term, w int, signed bool) Term {
	if t.T.K != SBV {
		panic("bvResize on " + t.T.String())
	}
	if t.T.W == w {
		return t
	}
	if t.T.W > w {
		return Term{fmt.Sprintf("((_ extract %d 0) %s)", w-1, t.S), sortBV(w)}
	}
	op := "zero_extend"
	if signed {
		op = "sign_extend"
	}
	return Term{fmt.Sprintf("((_ %s %d) %s)", op, w-t.T.W, t.S), sortBV(w)}
}

// prelude: fixed declarations shared by all queries.
const preludeSMT = `(declare-sort Str 0)
(declare-sort Err 0)
(declare-sort Hist 0)
(declare-const str.empty Str)
(declare-const err.nil Err)
(declare-fun str.cat (Str Str) Str)
(declare-fun errIs (Err Err) Bool)
(declare-fun errno (Int) Err)
`
