package main

// Contract files: //@ comment blocks in /repo's *_verif.go files (guarded by
// the `verif` build tag) and /verif/spec/*.spec for trusted externals.

import (
	"bufio"
	"fmt"
	"go/ast"
	"go/parser"
	"os"
	"regexp"
	"strconv"
	"strings"
)

type Clause struct {
	Expr  ast.Expr
	Src   string
	Tags  []string
	Label string
	File  string
	Line  int
}

type GhostStep struct {
	Var  string
	Expr ast.Expr
	Src  string
}

type LoopSpec struct {
	Ord       int
	Header    string
	Invs      []*Clause
	Decreases *Clause
	Steps     []GhostStep // executed before every back edge
	Inits     []GhostStep // executed right before the loop is entered
	Exits     []*Clause   // asserted when the loop condition becomes false
	Unroll    bool
}

type LetDef struct {
	Name string
	Expr ast.Expr
}

type ModeDef struct {
	Name   string
	Assume *Clause
}

type GhostVarDef struct {
	Name string
	Sort string
	Init ast.Expr
}

type ParamDef struct {
	Name string
	Type string
}

type FuncContract struct {
	Key       string // "inotify.newEvent", "recursivePath", "unix.InotifyAddWatch", "os.File.Read"
	RecvName  string
	ParamNames  []string // positional renames (optional)
	ResultNames []string
	ParamTypes  []string // as written in the func directive ("" when not given)
	ResultTypes []string
	Requires  []*Clause
	Ensures   []*Clause
	Lets      []LetDef
	Loops     []*LoopSpec
	Modes     []ModeDef
	GhostVars []GhostVarDef
	Modifies  []string // heap keys (trusted externals)
	Trusted   bool
	MathInt   bool
	Thread    bool // thread entry
	Pure      bool // no side effects: calls do not havoc anything
	NoInline  bool
	File      string
	Line      int
	Consumes  []string // tokens consumed from caller by `go f()`
	Effects   []GhostStep // ghost updates applied at function exit
	CallAsserts []CallAssert
	CallbackInvs []CallAssert // `callback <callee>: <invariant>`: holds before and after every invocation the callee makes of its function argument
	AtReturn  []*Clause // asserted at every return statement of the function, locals visible
	Locals    []ParamDef // local <name> <Go type>: if no local has that name, the unique local of that type is meant (renaming-robust)
	Opts      map[string]string
}

type CallAssert struct {
	Callee string
	Clause *Clause
}

type PredDef struct {
	Name   string
	Params []ParamDef
	Body   ast.Expr
	Src    string
}

type SpecFunDef struct {
	Name   string
	Params []ParamDef
	Ret    string
}

type GhostField struct {
	Owner string // struct type name or "" for global
	Name  string
	Sort  string
}

type LockInv struct {
	Lock     string // lock class e.g. "shared.mu"
	RecvName string
	RecvType string
	Clauses  []*Clause
}

type Contracts struct {
	Funcs    map[string]*FuncContract
	Preds    map[string]*PredDef
	SpecFuns map[string]*SpecFunDef
	Axioms   []*Clause
	Ghosts   map[string]*GhostField // "inotify.K"
	LockInvs map[string]*LockInv    // by lock class
	Owned    map[string]string      // heap key -> lock class
	Immutable map[string]bool       // heap keys immutable after construction
	AllocGrants map[string][]string // struct type -> tokens granted on allocation
	Files    []string
	LockOrder []string
	Chans    map[string]*ChanAttr
	EnvShrink [][2]string
	Confined map[string]string // heap key -> token
	Lemmas   []*Clause
	PkgImmutable []*Clause // each: Src = variable name, Tags = properties resting on it
	Impls        []*Clause // each: Src = "Struct.field *Type": the interface-typed field only ever holds that type (checked syntactically)
}

func newContracts() *Contracts {
	return &Contracts{Funcs: map[string]*FuncContract{}, Preds: map[string]*PredDef{}, SpecFuns: map[string]*SpecFunDef{},
		Ghosts: map[string]*GhostField{}, LockInvs: map[string]*LockInv{}, Owned: map[string]string{}, Immutable: map[string]bool{},
		AllocGrants: map[string][]string{}, Chans: map[string]*ChanAttr{}, Confined: map[string]string{}}
}

var topKeywords = map[string]bool{"func": true, "pred": true, "def": true, "fun": true, "axiom": true, "ghost": true, "lockinv": true,
	"owned": true, "trusted": true, "immutable": true, "alloc": true, "lockorder": true, "chan": true, "env": true, "confined": true, "lemma": true, "pkgimmutable": true, "impl": true}
var fnKeywords = map[string]bool{"requires": true, "ensures": true, "loop": true, "invariant": true, "decreases": true,
	"step": true, "let": true, "mode": true, "modifies": true, "ghostvar": true, "mathint": true, "thread": true,
	"pure": true, "unroll": true, "noinline": true, "consumes": true, "opt": true, "effect": true, "atcall": true, "callback": true, "init": true, "exit": true, "writes": true, "local": true, "atreturn": true}

type rawDirective struct {
	kw   string
	text string
	file string
	line int
}

var tagRe = regexp.MustCompile(`\s*\[((?:C\d+|safety|T\d)(?:[ ,]+(?:C\d+|safety|T\d))*)\]\s*(?:"([^"]*)")?\s*$`)

func readDirectives(path string) ([]rawDirective, error) {
	f, err := os.Open(path)
	if err != nil {
		return nil, err
	}
	defer f.Close()
	var out []rawDirective
	sc := bufio.NewScanner(f)
	sc.Buffer(make([]byte, 1<<20), 1<<20)
	ln := 0
	isSpec := strings.HasSuffix(path, ".spec")
	for sc.Scan() {
		ln++
		line := strings.TrimSpace(sc.Text())
		var body string
		switch {
		case strings.HasPrefix(line, "//@"):
			body = line[3:]
		case strings.HasPrefix(line, "// @"):
			body = line[4:]
		case isSpec && !strings.HasPrefix(line, "#") && !strings.HasPrefix(line, "//"):
			body = line
		default:
			continue
		}
		if i := strings.Index(body, " -- "); i >= 0 { // trailing remark
			body = body[:i]
		}
		body = strings.TrimSpace(body)
		if body == "" {
			continue
		}
		first := body
		if i := strings.IndexAny(body, " \t("); i >= 0 {
			first = body[:i]
		}
		if topKeywords[first] || fnKeywords[first] {
			out = append(out, rawDirective{kw: first, text: strings.TrimSpace(body[len(first):]), file: path, line: ln})
		} else if len(out) > 0 {
			out[len(out)-1].text += " " + body
		} else {
			return nil, fmt.Errorf("%s:%d: continuation line without directive", path, ln)
		}
	}
	return out, sc.Err()
}

func parseClause(d rawDirective, text string) (*Clause, error) {
	c := &Clause{File: d.file, Line: d.line}
	if m := tagRe.FindStringSubmatchIndex(text); m != nil {
		tags := text[m[2]:m[3]]
		for _, t := range strings.FieldsFunc(tags, func(r rune) bool { return r == ' ' || r == ',' }) {
			c.Tags = append(c.Tags, t)
		}
		if m[4] >= 0 {
			c.Label = text[m[4]:m[5]]
		}
		text = text[:m[0]]
	}
	c.Src = strings.TrimSpace(text)
	e, err := parseSpecExpr(c.Src)
	if err != nil {
		return nil, fmt.Errorf("%s:%d: %v in %q", d.file, d.line, err, c.Src)
	}
	c.Expr = e
	if c.Label == "" {
		c.Label = c.Src
		if len(c.Label) > 70 {
			c.Label = c.Label[:70] + "…"
		}
	}
	return c, nil
}

func parseSpecExpr(src string) (ast.Expr, error) {
	return parser.ParseExpr(rewriteImp(src))
}

// findTop finds the first depth-0 occurrence of op in s (outside strings), or -1.
func findTop(s, op string) int {
	depth := 0
	for i := 0; i < len(s); i++ {
		c := s[i]
		switch c {
		case '"':
			j := i + 1
			for j < len(s) && s[j] != '"' {
				if s[j] == '\\' {
					j++
				}
				j++
			}
			i = j
			continue
		case '\'':
			j := i + 1
			for j < len(s) && s[j] != '\'' {
				if s[j] == '\\' {
					j++
				}
				j++
			}
			i = j
			continue
		case '(', '[', '{':
			depth++
		case ')', ']', '}':
			depth--
		}
		if depth == 0 && strings.HasPrefix(s[i:], op) {
			if op == "==>" && i > 0 && s[i-1] == '<' {
				continue
			}
			return i
		}
	}
	return -1
}

func rewriteImp(s string) string {
	if i := findTop(s, "<==>"); i >= 0 {
		return "__iff(" + rewriteImp(s[:i]) + ", " + rewriteImp(s[i+4:]) + ")"
	}
	if i := findTop(s, "==>"); i >= 0 {
		return "__imp(" + rewriteImp(s[:i]) + ", " + rewriteImp(s[i+3:]) + ")"
	}
	if !strings.Contains(s, "==>") {
		return s
	}
	// rewrite inside groups
	var b strings.Builder
	for i := 0; i < len(s); i++ {
		c := s[i]
		if c == '"' {
			j := i + 1
			for j < len(s) && s[j] != '"' {
				if s[j] == '\\' {
					j++
				}
				j++
			}
			b.WriteString(s[i:min(j+1, len(s))])
			i = j
			continue
		}
		if c == '(' || c == '[' {
			closeC := byte(')')
			if c == '[' {
				closeC = ']'
			}
			depth := 0
			j := i
			for ; j < len(s); j++ {
				if s[j] == '(' || s[j] == '[' || s[j] == '{' {
					depth++
				} else if s[j] == ')' || s[j] == ']' || s[j] == '}' {
					depth--
					if depth == 0 {
						break
					}
				}
			}
			inner := s[i+1 : j]
			// split at top-level commas
			var parts []string
			for {
				k := findTop(inner, ",")
				if k < 0 {
					parts = append(parts, inner)
					break
				}
				parts = append(parts, inner[:k])
				inner = inner[k+1:]
			}
			b.WriteByte(c)
			for pi, p := range parts {
				if pi > 0 {
					b.WriteByte(',')
				}
				b.WriteString(rewriteImp(p))
			}
			b.WriteByte(closeC)
			i = j
			continue
		}
		b.WriteByte(c)
	}
	return b.String()
}

var funcDirRe = regexp.MustCompile(`^(?:\(\s*(\w+)\s+\*?([\w.]+)\s*\)\s*)?([\w.]+)\s*(?:\(([^)]*)\))?\s*(?:\(([^)]*)\))?\s*$`)

func parseParams(s string) []ParamDef {
	var out []ParamDef
	s = strings.TrimSpace(s)
	if s == "" {
		return nil
	}
	for {
		k := findTop(s, ",")
		part := s
		if k >= 0 {
			part = s[:k]
		}
		part = strings.TrimSpace(part)
		f := strings.SplitN(part, " ", 2)
		pd := ParamDef{Name: f[0]}
		if len(f) == 2 {
			pd.Type = strings.TrimSpace(f[1])
		}
		out = append(out, pd)
		if k < 0 {
			break
		}
		s = s[k+1:]
	}
	// Go-style grouping: "a, b T"
	for i := len(out) - 2; i >= 0; i-- {
		if out[i].Type == "" {
			out[i].Type = out[i+1].Type
		}
	}
	return out
}

func (cs *Contracts) loadFile(path string) error {
	ds, err := readDirectives(path)
	if err != nil {
		return err
	}
	cs.Files = append(cs.Files, path)
	var cur *FuncContract
	var curLoop *LoopSpec
	var curLockInv *LockInv
	for _, d := range ds {
		fail := func(f string, a ...interface{}) error {
			return fmt.Errorf("%s:%d: %s", d.file, d.line, fmt.Sprintf(f, a...))
		}
		switch d.kw {
		case "func", "trusted":
			m := funcDirRe.FindStringSubmatch(d.text)
			if m == nil {
				return fail("bad func directive %q", d.text)
			}
			fc := &FuncContract{RecvName: m[1], File: d.file, Line: d.line, Trusted: d.kw == "trusted", Opts: map[string]string{}}
			if m[2] != "" {
				fc.Key = m[2] + "." + m[3]
			} else {
				fc.Key = m[3]
			}
			for _, p := range parseParams(m[4]) {
				fc.ParamNames = append(fc.ParamNames, p.Name)
				fc.ParamTypes = append(fc.ParamTypes, p.Type)
			}
			for _, p := range parseParams(m[5]) {
				fc.ResultNames = append(fc.ResultNames, p.Name)
				fc.ResultTypes = append(fc.ResultTypes, p.Type)
			}
			if _, dup := cs.Funcs[fc.Key]; dup {
				return fail("duplicate contract for %s", fc.Key)
			}
			cs.Funcs[fc.Key] = fc
			cur, curLoop, curLockInv = fc, nil, nil
		case "pred", "def":
			i := strings.Index(d.text, ":=")
			if i < 0 {
				return fail("pred without :=")
			}
			head := strings.TrimSpace(d.text[:i])
			j := strings.Index(head, "(")
			if j < 0 || !strings.HasSuffix(head, ")") {
				return fail("bad pred head %q", head)
			}
			body := strings.TrimSpace(d.text[i+2:])
			e, err := parseSpecExpr(body)
			if err != nil {
				return fail("%v in %q", err, body)
			}
			cs.Preds[head[:j]] = &PredDef{Name: head[:j], Params: parseParams(head[j+1 : len(head)-1]), Body: e, Src: body}
			cur, curLockInv = nil, nil
		case "fun":
			j := strings.Index(d.text, "(")
			k := strings.LastIndex(d.text, ")")
			if j < 0 || k < j {
				return fail("bad fun %q", d.text)
			}
			name := strings.TrimSpace(d.text[:j])
			cs.SpecFuns[name] = &SpecFunDef{Name: name, Params: parseParams(d.text[j+1 : k]), Ret: strings.TrimSpace(d.text[k+1:])}
			cur, curLockInv = nil, nil
		case "pkgimmutable":
			// pkgimmutable <var> [tags] "label"
			c, err := parseClause(d, d.text)
			if err != nil {
				return err
			}
			cs.PkgImmutable = append(cs.PkgImmutable, c)
			cur, curLockInv = nil, nil
		case "impl":
			c, err := parseClause(d, d.text)
			if err != nil {
				return err
			}
			if len(strings.Fields(c.Src)) != 2 {
				return fail("bad impl %q", d.text)
			}
			cs.Impls = append(cs.Impls, c)
			cur, curLockInv = nil, nil
		case "lemma":
			c, err := parseClause(d, d.text)
			if err != nil {
				return err
			}
			cs.Lemmas = append(cs.Lemmas, c)
			cur, curLockInv = nil, nil
		case "axiom":
			c, err := parseClause(d, d.text)
			if err != nil {
				return err
			}
			cs.Axioms = append(cs.Axioms, c)
			cur, curLockInv = nil, nil
		case "ghost":
			f := strings.Fields(d.text)
			if len(f) < 2 {
				return fail("bad ghost %q", d.text)
			}
			g := &GhostField{Sort: strings.Join(f[1:], " ")}
			if i := strings.Index(f[0], "."); i >= 0 {
				g.Owner, g.Name = f[0][:i], f[0][i+1:]
			} else {
				g.Name = f[0]
			}
			cs.Ghosts[f[0]] = g
			cur, curLockInv = nil, nil
		case "lockinv":
			// lockinv shared.mu (w *inotify) := expr   (more `invariant` lines may follow)
			i := strings.Index(d.text, ":=")
			if i < 0 {
				return fail("lockinv without :=")
			}
			head := strings.Fields(strings.NewReplacer("(", " ", ")", " ", "*", " ").Replace(d.text[:i]))
			if len(head) != 3 {
				return fail("bad lockinv head %q", d.text[:i])
			}
			li := &LockInv{Lock: head[0], RecvName: head[1], RecvType: head[2]}
			c, err := parseClause(d, d.text[i+2:])
			if err != nil {
				return err
			}
			li.Clauses = append(li.Clauses, c)
			cs.LockInvs[li.Lock] = li
			cur, curLockInv = nil, li
		case "owned":
			i := strings.Index(d.text, ":")
			if i < 0 {
				return fail("bad owned")
			}
			lock := strings.TrimSpace(d.text[:i])
			for _, k := range strings.FieldsFunc(d.text[i+1:], func(r rune) bool { return r == ',' || r == ' ' }) {
				cs.Owned[k] = lock
			}
			cur, curLockInv = nil, nil
		case "confined":
			i := strings.Index(d.text, ":")
			if i < 0 {
				return fail("bad confined")
			}
			tok := strings.TrimSpace(d.text[:i])
			for _, k := range strings.FieldsFunc(d.text[i+1:], func(r rune) bool { return r == ',' || r == ' ' }) {
				cs.Confined[k] = tok
			}
			cur, curLockInv = nil, nil
		case "immutable":
			for _, k := range strings.FieldsFunc(d.text, func(r rune) bool { return r == ',' || r == ' ' }) {
				cs.Immutable[k] = true
			}
			cur, curLockInv = nil, nil
		case "alloc":
			// alloc inotify grants reader
			f := strings.Fields(d.text)
			if len(f) < 3 || f[1] != "grants" {
				return fail("bad alloc")
			}
			cs.AllocGrants[f[0]] = append(cs.AllocGrants[f[0]], f[2:]...)
			cur, curLockInv = nil, nil
		case "chan":
			f := strings.Fields(d.text)
			if len(f) < 1 {
				return fail("bad chan")
			}
			a := &ChanAttr{}
			for _, o := range f[1:] {
				switch {
				case o == "extclose":
					a.ExtClose = true
				case o == "closeonly":
					a.CloseOnly = true
				case strings.HasPrefix(o, "closer="):
					a.Closer = o[7:]
				case strings.HasPrefix(o, "sender="):
					a.Sender = o[7:]
				case strings.HasPrefix(o, "guard="):
					a.Guard = o[6:]
				default:
					return fail("bad chan attribute %q", o)
				}
			}
			cs.Chans[f[0]] = a
			cur, curLockInv = nil, nil
		case "env":
			// env shrink K into Pending
			f := strings.Fields(d.text)
			if len(f) != 4 || f[0] != "shrink" || f[2] != "into" {
				return fail("bad env")
			}
			cs.EnvShrink = append(cs.EnvShrink, [2]string{f[1], f[3]})
			cur, curLockInv = nil, nil
		case "lockorder":
			for _, l := range strings.FieldsFunc(d.text, func(r rune) bool { return r == '<' || r == ' ' }) {
				dup := false
				for _, e := range cs.LockOrder {
					if e == l {
						dup = true
					}
				}
				if !dup {
					cs.LockOrder = append(cs.LockOrder, l)
				}
			}
			cur, curLockInv = nil, nil
		default:
			if d.kw == "invariant" && curLockInv != nil {
				c, err := parseClause(d, d.text)
				if err != nil {
					return err
				}
				curLockInv.Clauses = append(curLockInv.Clauses, c)
				continue
			}
			if cur == nil {
				return fail("%s outside a func block", d.kw)
			}
			switch d.kw {
			case "requires", "ensures":
				c, err := parseClause(d, d.text)
				if err != nil {
					return err
				}
				if d.kw == "requires" {
					cur.Requires = append(cur.Requires, c)
				} else {
					cur.Ensures = append(cur.Ensures, c)
				}
				curLoop = nil
			case "loop":
				f := strings.SplitN(d.text, " ", 2)
				n, err := strconv.Atoi(f[0])
				if err != nil {
					return fail("loop ordinal: %v", err)
				}
				ls := &LoopSpec{Ord: n}
				if len(f) > 1 {
					ls.Header = strings.Trim(strings.TrimSpace(f[1]), `"`)
				}
				cur.Loops = append(cur.Loops, ls)
				curLoop = ls
			case "invariant":
				if curLoop == nil {
					return fail("invariant outside loop")
				}
				c, err := parseClause(d, d.text)
				if err != nil {
					return err
				}
				curLoop.Invs = append(curLoop.Invs, c)
			case "decreases":
				if curLoop == nil {
					return fail("decreases outside loop")
				}
				c, err := parseClause(d, d.text)
				if err != nil {
					return err
				}
				curLoop.Decreases = c
			case "unroll":
				if curLoop == nil {
					return fail("unroll outside loop")
				}
				curLoop.Unroll = true
			case "exit":
				if curLoop == nil {
					return fail("exit outside loop")
				}
				c, err := parseClause(d, d.text)
				if err != nil {
					return err
				}
				curLoop.Exits = append(curLoop.Exits, c)
			case "writes":
				cur.Opts["writes"] = strings.TrimSpace(d.text)
			case "init":
				if curLoop == nil {
					return fail("init outside loop")
				}
				i := strings.Index(d.text, "=")
				if i < 0 {
					return fail("bad init")
				}
				e, err := parseSpecExpr(strings.TrimSpace(d.text[i+1:]))
				if err != nil {
					return fail("%v", err)
				}
				curLoop.Inits = append(curLoop.Inits, GhostStep{Var: strings.TrimSpace(d.text[:i]), Expr: e, Src: d.text})
			case "step":
				if curLoop == nil {
					return fail("step outside loop")
				}
				i := strings.Index(d.text, "=")
				if i < 0 {
					return fail("bad step")
				}
				e, err := parseSpecExpr(strings.TrimSpace(d.text[i+1:]))
				if err != nil {
					return fail("%v", err)
				}
				curLoop.Steps = append(curLoop.Steps, GhostStep{Var: strings.TrimSpace(d.text[:i]), Expr: e, Src: d.text})
			case "atreturn":
				c, err := parseClause(d, d.text)
				if err != nil {
					return err
				}
				cur.AtReturn = append(cur.AtReturn, c)
			case "local":
				f := strings.SplitN(strings.TrimSpace(d.text), " ", 2)
				if len(f) != 2 {
					return fail("bad local")
				}
				cur.Locals = append(cur.Locals, ParamDef{Name: f[0], Type: strings.TrimSpace(f[1])})
			case "atcall":
				// atcall <callee key>: <expr over caller locals and arg_<param>>
				i := strings.Index(d.text, ":")
				if i < 0 {
					return fail("bad atcall")
				}
				c, err := parseClause(d, strings.TrimSpace(d.text[i+1:]))
				if err != nil {
					return err
				}
				cur.CallAsserts = append(cur.CallAsserts, CallAssert{Callee: strings.TrimSpace(d.text[:i]), Clause: c})
			case "callback":
				i := strings.Index(d.text, ":")
				if i < 0 {
					return fail("bad callback")
				}
				c, err := parseClause(d, strings.TrimSpace(d.text[i+1:]))
				if err != nil {
					return err
				}
				cur.CallbackInvs = append(cur.CallbackInvs, CallAssert{Callee: strings.TrimSpace(d.text[:i]), Clause: c})
			case "effect":
				i := strings.Index(d.text, "=")
				if i < 0 {
					return fail("bad effect")
				}
				e, err := parseSpecExpr(strings.TrimSpace(d.text[i+1:]))
				if err != nil {
					return fail("%v", err)
				}
				cur.Effects = append(cur.Effects, GhostStep{Var: strings.TrimSpace(d.text[:i]), Expr: e, Src: d.text})
			case "let":
				i := strings.Index(d.text, "=")
				if i < 0 {
					return fail("bad let")
				}
				e, err := parseSpecExpr(strings.TrimSpace(d.text[i+1:]))
				if err != nil {
					return fail("%v", err)
				}
				cur.Lets = append(cur.Lets, LetDef{Name: strings.TrimSpace(d.text[:i]), Expr: e})
			case "mode":
				i := strings.Index(d.text, ":")
				if i < 0 {
					return fail("bad mode")
				}
				c, err := parseClause(d, strings.TrimSpace(d.text[i+1:]))
				if err != nil {
					return err
				}
				cur.Modes = append(cur.Modes, ModeDef{Name: strings.TrimSpace(d.text[:i]), Assume: c})
			case "ghostvar":
				// ghostvar k int = 0
				f := strings.SplitN(d.text, "=", 2)
				h := strings.Fields(f[0])
				if len(h) != 2 {
					return fail("bad ghostvar")
				}
				gv := GhostVarDef{Name: h[0], Sort: h[1]}
				if len(f) == 2 {
					e, err := parseSpecExpr(strings.TrimSpace(f[1]))
					if err != nil {
						return fail("%v", err)
					}
					gv.Init = e
				}
				cur.GhostVars = append(cur.GhostVars, gv)
			case "modifies":
				cur.Modifies = append(cur.Modifies, strings.FieldsFunc(d.text, func(r rune) bool { return r == ',' || r == ' ' })...)
			case "mathint":
				cur.MathInt = true
			case "thread":
				cur.Thread = true
			case "pure":
				cur.Pure = true
			case "noinline":
				cur.NoInline = true
			case "consumes":
				cur.Consumes = append(cur.Consumes, strings.Fields(d.text)...)
			case "opt":
				f := strings.SplitN(d.text, "=", 2)
				if len(f) == 2 {
					cur.Opts[strings.TrimSpace(f[0])] = strings.TrimSpace(f[1])
				} else {
					cur.Opts[strings.TrimSpace(f[0])] = "1"
				}
			}
		}
	}
	return nil
}
