package main

// Channels, goroutines, select, environment actions.

import (
	"fmt"
	"go/ast"
	"go/token"
	"go/types"
	"strings"
)

type ChanAttr struct {
	Closer, Sender string
	ExtClose       bool // may be closed by any thread; modelled as a monotone Bool
	CloseOnly      bool // never sent on: a receive returns only once it is closed
	Guard          string // lock class that must be held to close it (so its closedness is stable under that lock)
}

// chanField returns "<Struct>.<field>" if e selects a channel-typed struct field.
func (x *Exec) chanField(e ast.Expr) string {
	se, ok := unparen(e).(*ast.SelectorExpr)
	if !ok {
		return ""
	}
	sel := x.info.Selections[se]
	if sel == nil || sel.Kind() != types.FieldVal {
		return ""
	}
	t := x.info.TypeOf(se.X)
	idx := sel.Index()
	for _, i := range idx[:len(idx)-1] {
		if p, ok := t.Underlying().(*types.Pointer); ok {
			t = p.Elem()
		}
		t = t.Underlying().(*types.Struct).Field(i).Type()
	}
	return structName(t) + "." + se.Sel.Name
}

func (x *Exec) chanAttr(e ast.Expr) (string, *ChanAttr) {
	k := x.chanField(e)
	if k == "" {
		return "", nil
	}
	return k, x.prog.Contracts.Chans[k]
}

func (x *Exec) chKey(name string, s *Sort) string {
	x.registerHeap(name, func() Value { return x.vc.freshBase(name, sortArr(sortRef, s)) })
	return name
}

func (x *Exec) xclosedKey(field string) string {
	key := "xclosed:" + field
	x.registerHeap(key, func() Value { return x.vc.freshBase("closed", sortBool) })
	return key
}

func (x *Exec) chanInit(st *State, r, capT Term, elemKey string) {
	ck := x.chKey("chClosed:"+elemKey, sortBool)
	x.setHeap(st, ck, tStore(x.getHeap(st, ck).(Term), r, tFalse))
	pk := x.chKey("chCap", x.idxSort())
	x.setHeap(st, pk, tStore(x.getHeap(st, pk).(Term), r, capT))
	x.declConst("hist.empty", sortUnint("Hist"))
	hk := x.chKey("chHist:"+elemKey, sortUnint("Hist"))
	x.setHeap(st, hk, tStore(x.getHeap(st, hk).(Term), r, Term{"hist.empty", sortUnint("Hist")}))
}

func (x *Exec) declConst(name string, s *Sort) {
	if x.specDecls[name] {
		return
	}
	x.specDecls[name] = true
	x.vc.extraPrelude = append(x.vc.extraPrelude, fmt.Sprintf("(declare-const %s %s)", name, s))
}

// closedTerm: is channel (expression e, value c) closed in st?
func (x *Exec) closedTerm(e ast.Expr, c Term, st *State) Term {
	if k, a := x.chanAttr(e); a != nil && a.ExtClose {
		return x.getHeap(st, x.xclosedKey(k)).(Term)
	}
	return tSelect(x.getHeap(st, x.chClosedKey(x.info.TypeOf(e))).(Term), c)
}

func (x *Exec) chClosedKey(t types.Type) string {
	ct, ok := t.Underlying().(*types.Chan)
	if !ok {
		panic("chClosedKey: not a channel type " + t.String())
	}
	return x.chKey("chClosed:"+typeKey(ct.Elem()), sortBool)
}

func (x *Exec) closeChan(e ast.Expr, c Term, st *State, pos token.Pos) {
	x.assertSafety(st, "chan", "close of nil channel", tNe(c, tNil), pos)
	k, a := x.chanAttr(e)
	if a != nil && a.Closer != "" {
		x.assertSafety(st, "chan", "only the holder of token("+a.Closer+") closes "+k, x.getHeap(st, x.tokKey(a.Closer)).(Term), pos)
	}
	if a != nil && a.Guard != "" {
		x.assertSafety(st, "chan", k+" is closed only while holding "+a.Guard, x.heldTerm(st, a.Guard), pos)
	}
	if a != nil && a.ExtClose {
		x.interfere(st)
		key := x.xclosedKey(k)
		x.assertSafety(st, "chan", "close of closed channel "+k, tNot(x.getHeap(st, key).(Term)), pos)
		x.setHeap(st, key, tTrue)
		return
	}
	ck := x.chClosedKey(x.info.TypeOf(e))
	cl := x.getHeap(st, ck).(Term)
	what := "close of closed channel"
	if k != "" {
		what += " " + k
	}
	x.assertSafety(st, "chan", what, tNot(tSelect(cl, c)), pos)
	x.setHeap(st, ck, tStore(cl, c, tTrue))
}

func (x *Exec) lockClasses() []string {
	seen := map[string]bool{}
	var out []string
	cs := x.prog.Contracts
	for _, l := range cs.Owned {
		if !seen[l] {
			seen[l] = true
			out = append(out, l)
		}
	}
	for l := range cs.LockInvs {
		if !seen[l] {
			seen[l] = true
			out = append(out, l)
		}
	}
	for _, l := range cs.LockOrder {
		if !seen[l] {
			seen[l] = true
			out = append(out, l)
		}
	}
	// lock classes the contracts do not know (a mutex added by a change) count as well once the code has used them
	for k := range x.heapMakers {
		if strings.HasPrefix(k, "held:") {
			if l := strings.TrimPrefix(k, "held:"); !seen[l] {
				seen[l] = true
				out = append(out, l)
			}
		}
	}
	sortStrings(out)
	return out
}

// declaredLockClass: the contracts mention this lock class (owned state, lock invariant or lock order).
func (x *Exec) declaredLockClass(l string) bool {
	cs := x.prog.Contracts
	for _, o := range cs.Owned {
		if o == l {
			return true
		}
	}
	if _, ok := cs.LockInvs[l]; ok {
		return true
	}
	for _, o := range cs.LockOrder {
		if o == l {
			return true
		}
	}
	return false
}

// blockingCheck: a statement that may block indefinitely must not hold a lock,
// unless it is known that it cannot block (escape).
func (x *Exec) blockingCheck(st *State, what string, escape Term, pos token.Pos) {
	for _, l := range x.lockClasses() {
		x.assert(st, "safety/block", what+" while holding "+l, tOr(tNot(x.heldTerm(st, l)), escape), x.blockTags(), pos)
	}
}

func (x *Exec) blockTags() []string { return x.safetyTags }

func (x *Exec) sendStmt(chE, valE ast.Expr, st *State, pos token.Pos, blocking bool) {
	c := x.expr(chE, st).(Term)
	v := x.expr(valE, st)
	ct := x.info.TypeOf(chE).Underlying().(*types.Chan)
	v = x.convertAssign(v, x.info.TypeOf(valE), ct.Elem(), st)
	if blocking {
		x.blockingCheck(st, "blocking send", tFalse, pos)
	}
	x.doSend(chE, c, v, st, pos)
}

func (x *Exec) doSend(chE ast.Expr, c Term, v Value, st *State, pos token.Pos) {
	k, a := x.chanAttr(chE)
	if a != nil && a.Sender != "" {
		x.assertSafety(st, "chan", "only the holder of token("+a.Sender+") sends on "+k, x.getHeap(st, x.tokKey(a.Sender)).(Term), pos)
	}
	x.assertSafety(st, "chan", "send on closed channel "+k, tNot(x.closedTerm(chE, c, st)), pos)
	ct := x.info.TypeOf(chE).Underlying().(*types.Chan)
	hk := x.chKey("chHist:"+typeKey(ct.Elem()), sortUnint("Hist"))
	h := x.getHeap(st, hk).(Term)
	x.setHeap(st, hk, tStore(h, c, x.histSnoc(tSelect(h, c), v)))
}

func (x *Exec) histSnoc(h Term, v Value) Term {
	var leaves []Term
	vLeaves(v, func(t Term) { leaves = append(leaves, t) })
	name := "hist.snoc"
	sorts := []*Sort{sortUnint("Hist")}
	for _, l := range leaves {
		name += "." + sanitize(l.T.String())
		sorts = append(sorts, l.T)
	}
	x.declSpecFun(name, sorts, sortUnint("Hist"))
	return mk(sortUnint("Hist"), name, append([]Term{h}, leaves...)...)
}

func (x *Exec) recv(chE ast.Expr, st *State, pos token.Pos, blocking bool) Value {
	c := x.expr(chE, st).(Term)
	ct := x.info.TypeOf(chE).Underlying().(*types.Chan)
	x.interfere(st)
	_, a := x.chanAttr(chE)
	if blocking {
		x.blockingCheck(st, "blocking receive", x.closedTerm(chE, c, st), pos)
	}
	if a != nil && a.CloseOnly {
		// nothing is ever sent: the receive returns only once the channel is closed
		if a.ExtClose {
			x.setHeap(st, x.xclosedKey(x.chanField(chE)), tTrue)
		} else {
			ck := x.chClosedKey(x.info.TypeOf(chE))
			x.setHeap(st, ck, tStore(x.getHeap(st, ck).(Term), c, tTrue))
		}
		return x.zeroValue(ct.Elem())
	}
	return x.freshValue(ct.Elem(), "recv")
}

func (x *Exec) selectStmt(s *ast.SelectStmt, st *State) {
	type selCase struct {
		cc     *ast.CommClause
		isRecv bool
		chE    ast.Expr
		valE   ast.Expr
		lhs    []ast.Expr
		tok    token.Token
	}
	var cases []selCase
	hasDefault := false
	for _, c := range s.Body.List {
		cc := c.(*ast.CommClause)
		sc := selCase{cc: cc}
		switch cm := cc.Comm.(type) {
		case nil:
			hasDefault = true
		case *ast.SendStmt:
			sc.chE, sc.valE = cm.Chan, cm.Value
		case *ast.ExprStmt:
			u := unparen(cm.X).(*ast.UnaryExpr)
			sc.isRecv, sc.chE = true, u.X
		case *ast.AssignStmt:
			u := unparen(cm.Rhs[0]).(*ast.UnaryExpr)
			sc.isRecv, sc.chE, sc.lhs, sc.tok = true, u.X, cm.Lhs, cm.Tok
		}
		cases = append(cases, sc)
	}
	x.interfere(st)
	// channel operands are evaluated once, in source order
	chans := make([]Term, len(cases))
	for i, sc := range cases {
		if sc.chE != nil {
			chans[i] = x.expr(sc.chE, st).(Term)
		}
	}
	if !hasDefault {
		// cannot block forever if some receive case is on a channel known to be closed
		var esc []Term
		for i, sc := range cases {
			if sc.isRecv {
				esc = append(esc, x.closedTerm(sc.chE, chans[i], st))
			}
		}
		x.blockingCheck(st, "blocking select", tOr(esc...), s.Pos())
		cancellable := false
		for _, sc := range cases {
			if sc.isRecv {
				if _, a := x.chanAttr(sc.chE); a != nil && a.ExtClose {
					cancellable = true
				}
			}
		}
		x.assert(st, "safety/cancel", "blocking select has a case on a channel that Close closes", boolTerm(cancellable), x.safetyTags, s.Pos())
	}
	choice := x.vc.fresh("sel", sortInt)
	var outs []*State
	for i, sc := range cases {
		sb := st.clone()
		x.addPC(sb, tEq(choice, intConstI(int64(i))))
		switch {
		case sc.cc.Comm == nil:
			// default: no other case was ready; in particular ext-closable receive channels are open
			for j, o := range cases {
				if o.isRecv {
					x.assume(sb, tNot(x.closedTerm(o.chE, chans[j], sb)))
				}
			}
		case sc.isRecv:
			ct := x.info.TypeOf(sc.chE).Underlying().(*types.Chan)
			_, a := x.chanAttr(sc.chE)
			var v Value
			if a != nil && a.CloseOnly {
				x.assume(sb, x.closedTerm(sc.chE, chans[i], sb))
				v = x.zeroValue(ct.Elem())
			} else {
				v = x.freshValue(ct.Elem(), "recv")
			}
			if len(sc.lhs) > 0 {
				x.assignOrDefine(sc.lhs[0], v, sb, sc.tok == token.DEFINE)
				if len(sc.lhs) > 1 {
					x.assignOrDefine(sc.lhs[1], x.vc.fresh("ok", sortBool), sb, sc.tok == token.DEFINE)
				}
			}
		default:
			v := x.expr(sc.valE, sb)
			ct := x.info.TypeOf(sc.chE).Underlying().(*types.Chan)
			v = x.convertAssign(v, x.info.TypeOf(sc.valE), ct.Elem(), sb)
			x.doSend(sc.chE, chans[i], v, sb, sc.cc.Pos())
		}
		x.block(sc.cc.Body, sb)
		outs = append(outs, sb)
	}
	x.assume(st, tAnd(mk(sortBool, "<=", Term{"0", sortInt}, choice), mk(sortBool, "<", choice, intConstI(int64(len(cases))))))
	st.set(x.merge(outs...))
}

func boolTerm(b bool) Term {
	if b {
		return tTrue
	}
	return tFalse
}

func (x *Exec) goStmt(s *ast.GoStmt, st *State) {
	fun := unparen(s.Call.Fun)
	var fn *types.Func
	var recv Value
	switch f := fun.(type) {
	case *ast.Ident:
		fn, _ = x.info.Uses[f].(*types.Func)
	case *ast.SelectorExpr:
		if sel := x.info.Selections[f]; sel != nil && sel.Kind() == types.MethodVal {
			fn = sel.Obj().(*types.Func)
			recv = x.methodRecv(f, sel, st)
		} else {
			fn, _ = x.info.Uses[f.Sel].(*types.Func)
		}
	}
	if fn == nil {
		x.assertSafety(st, "go", "goroutine started on a function without a thread contract", tFalse, s.Pos())
		return
	}
	key := funcKeyOf(fn)
	fc := x.prog.Contracts.Funcs[key]
	sig := fn.Type().(*types.Signature)
	args := x.evalArgs(s.Call, sig, st)
	if fc == nil || !fc.Thread {
		x.assertSafety(st, "go", "goroutine started on "+key+", which has no thread contract", tFalse, s.Pos())
		return
	}
	env := x.contractEnv(fc, x.prog.FuncsByObj[fn], sig, recv, args, nil, st, st)
	for _, rq := range fc.Requires {
		for _, g := range x.specConjuncts(rq.Expr, env) {
			x.assert(st, "pre", "go "+key+": "+g.label(rq.Label), g.t, rq.Tags, s.Pos())
		}
	}
	for _, tok := range fc.Consumes {
		x.setHeap(st, x.tokKey(tok), tFalse)
	}
	// publication: the lock invariants of the object handed to the new thread must hold now
	if r, ok := recv.(Term); ok {
		rt := sig.Recv().Type()
		for _, lk := range sortedKeys(x.prog.Contracts.LockInvs) {
			li := x.prog.Contracts.LockInvs[lk]
			if structName(rt) != li.RecvType {
				continue
			}
			env := x.frameEnv(st)
			env.vars = copyVars(env.vars)
			env.vars[li.RecvName] = TV{V: recv, T: rt}
			for _, c := range li.Clauses {
				for _, g := range x.specConjuncts(c.Expr, env) {
					x.assert(st, "lockinv-init", "at publication: "+g.label(c.Label), g.t, c.Tags, s.Pos())
				}
			}
		}
		for k := range st.local {
			delete(st.local, k)
		}
		_ = r
	}
	if _, ok := x.prog.Contracts.Ghosts["goroutines"]; ok {
		k := x.ghostKey("goroutines")
		x.setHeap(st, k, mk(sortInt, "+", x.getHeap(st, k).(Term), Term{"1", sortInt}))
	}
}

// envActions: declared environment interference on ghost state.
func (x *Exec) envActions(st *State) {
	for _, es := range x.prog.Contracts.EnvShrink {
		kk, pk := x.ghostKey(es[0]), x.ghostKey(es[1])
		K := x.getHeap(st, kk).(Term)
		P := x.getHeap(st, pk).(Term)
		nK := x.vc.fresh(es[0], K.T)
		nP := x.vc.fresh(es[1], P.T)
		q := Term{"qe", K.T.Idx}
		x.assume(st, Term{fmt.Sprintf("(forall ((qe %s)) (! (and (=> %s %s) (= %s (or %s (and %s (not %s))))) :pattern (%s) :pattern (%s) :pattern (%s) :pattern (%s)))", K.T.Idx,
			tSelect(nK, q).S, tSelect(K, q).S,
			tSelect(nP, q).S, tSelect(P, q).S, tSelect(K, q).S, tSelect(nK, q).S,
			tSelect(nK, q).S, tSelect(nP, q).S, tSelect(K, q).S, tSelect(P, q).S), sortBool})
		x.setHeap(st, kk, nK)
		x.setHeap(st, pk, nP)
	}
}

func (x *Exec) ghostKey(name string) string {
	g := x.prog.Contracts.Ghosts[name]
	if g == nil {
		panic("unknown ghost " + name)
	}
	key := "ghost:" + name
	x.registerHeap(key, func() Value {
		s := x.parseGhostSort(g.Sort)
		if g.Owner != "" {
			s = sortArr(sortRef, s)
		}
		return x.vc.freshBase("ghost."+name, s)
	})
	return key
}

func (x *Exec) parseGhostSort(s string) *Sort {
	s = strings.TrimSpace(s)
	switch {
	case s == "bool":
		return sortBool
	case s == "Int":
		return sortInt
	case s == "int":
		return x.idxSort()
	case s == "string":
		return sortStr
	case s == "error":
		return sortErr
	case s == "Ref":
		return sortRef
	case s == "hist":
		return sortUnint("Hist")
	case s == "uint8" || s == "int8" || s == "byte":
		return sortBV(8)
	case s == "uint16" || s == "int16":
		return sortBV(16)
	case s == "uint32" || s == "int32":
		return sortBV(32)
	case s == "uint64" || s == "int64":
		return sortBV(64)
	case strings.HasPrefix(s, "set[") && strings.HasSuffix(s, "]"):
		return sortArr(x.parseGhostSort(s[4:len(s)-1]), sortBool)
	case strings.HasPrefix(s, "map["):
		i := findTop(s[3:], "]")
		return sortArr(x.parseGhostSort(s[4:3+i]), x.parseGhostSort(s[3+i+1:]))
	}
	// Go type
	if t := x.resolveGoType(s); t != nil {
		if ss := x.scalarSort(t); ss != nil {
			return ss
		}
	}
	panic("unknown ghost sort " + s)
}

func sortStrings(s []string) {
	for i := 1; i < len(s); i++ {
		for j := i; j > 0 && s[j] < s[j-1]; j-- {
			s[j], s[j-1] = s[j-1], s[j]
		}
	}
}
