package main

// Symbolic executor over go/ast + go/types: statements, control flow, loops
// (cut by invariants), returns/defers, obligations.

import (
	"go/constant"
	"bytes"
	"fmt"
	"go/ast"
	"go/printer"
	"go/token"
	"go/types"
	"sort"
	"strings"

	"golang.org/x/tools/go/packages"
)

type FuncInfo struct {
	Key     string
	Decl    *ast.FuncDecl
	Obj     *types.Func
	Pkg     *packages.Package
	LoopOrd map[ast.Node]int
}

type Program struct {
	Fset       *token.FileSet
	Main       *packages.Package
	Pkgs       []*packages.Package
	Funcs      map[string]*FuncInfo
	FuncsByObj map[*types.Func]*FuncInfo
	Contracts  *Contracts
	GOOS       string
}

type retRec struct {
	st   *State
	vals []Value
}

type Frame struct {
	fi       *FuncInfo
	sig      *types.Signature
	results  []types.Object
	rets     []retRec
	contract *FuncContract
	loopOrd  map[ast.Node]int
	name     string
	recvTV   *TV // receiver binding for lock invariants
	lit      *ast.FuncLit // the literal, for a closure frame
}

type loopCtx struct {
	breaks, conts []*State
	label         string
	isSwitch      bool
	idx           Value  // current index (slice range)
	visited       Value  // visited set (map range)
	head          *State // state at the head of the iteration being verified (loops under specification; for atIter)
}

type Exec struct {
	prog       *Program
	pkg        *packages.Package
	info       *types.Info
	vc         *VC
	mathInt    bool
	heapBase   map[string]Value
	heapMakers map[string]func() Value
	frames     []*Frame
	loops      []*loopCtx
	top        *FuncInfo
	topC       *FuncContract
	mode       string
	modeFlags  map[string]bool
	ord        map[string]int
	abstractions map[string]bool
	catParts   map[string][2]Term
	mayWriteCache map[string]map[string]bool
	mayWriteBusy  map[string]bool
	safetyTags []string
	inlineStack []string
	entry      *State // entry state of the top function (old)
	specDecls  map[string]bool
	ghostLocalSorts map[string]*Sort
	extClose   map[string]bool
	curLabel   string
	staleLoops map[*LoopSpec]string // loop contracts whose recorded header no longer matches the code
	assertStale string
	dryDepth   int
	useStrings bool
	atReturnHits map[*Clause]int
	modeTags   []string
	noEnv      int
	cbDepth    int
	tableInit  map[*types.Var]ast.Expr
	splitVar   string
	splitBits  int
}

func newExec(prog *Program, pkg *packages.Package) *Exec {
	x := newExec0(prog, pkg)
	x.preRegisterOwned()
	return x
}

// preRegisterOwned makes the heap keys of every lock-owned field and map known before any statement runs,
// so that the snapshots taken at Lock/Unlock are complete whichever fields the body happens to touch first.
func (x *Exec) preRegisterOwned() {
	if x.prog.Contracts == nil || len(x.prog.Contracts.Owned) == 0 {
		return
	}
	owned := x.prog.Contracts.Owned
	scope := x.pkg.Types.Scope()
	for _, name := range scope.Names() {
		tn, ok := scope.Lookup(name).(*types.TypeName)
		if !ok {
			continue
		}
		st, ok := tn.Type().Underlying().(*types.Struct)
		if !ok {
			continue
		}
		for i := 0; i < st.NumFields(); i++ {
			f := st.Field(i)
			if _, isOwned := owned[tn.Name()+"."+f.Name()]; isOwned {
				func() {
					defer func() { recover() }() // field types the value model does not cover are simply not pre-registered
					x.fieldKey(tn.Type(), f)
				}()
			}
			if mt, isMap := f.Type().Underlying().(*types.Map); isMap {
				func() {
					defer func() { recover() }()
					base := "m:" + typeKey(mt.Key()) + ":" + typeKey(mt.Elem())
					if _, isOwned := owned[base]; isOwned {
						x.mapKeys(mt)
					}
				}()
			}
		}
	}
}

func newExec0(prog *Program, pkg *packages.Package) *Exec {
	return &Exec{prog: prog, pkg: pkg, info: pkg.TypesInfo, vc: newVC(), heapBase: map[string]Value{}, heapMakers: map[string]func() Value{},
		ord: map[string]int{}, abstractions: map[string]bool{}, catParts: map[string][2]Term{}, mayWriteCache: map[string]map[string]bool{},
		mayWriteBusy: map[string]bool{}, modeFlags: map[string]bool{}, specDecls: map[string]bool{}, ghostLocalSorts: map[string]*Sort{}, atReturnHits: map[*Clause]int{}}
}

func (x *Exec) frame() *Frame { return x.frames[len(x.frames)-1] }

func (x *Exec) posOf(p token.Pos) token.Position { return x.prog.Fset.Position(p) }

func (x *Exec) nodeStr(n ast.Node) string {
	var b bytes.Buffer
	printer.Fprint(&b, x.prog.Fset, n)
	s := b.String()
	if i := strings.Index(s, "\n"); i >= 0 {
		s = s[:i]
	}
	return s
}

type unsupported struct{ msg string }

func (x *Exec) unsupported(n ast.Node, f string, a ...interface{}) {
	msg := fmt.Sprintf(f, a...)
	if n != nil {
		msg = fmt.Sprintf("%s: %s", x.posOf(n.Pos()), msg)
	}
	panic(unsupported{msg})
}

// ---- obligations ----

func (x *Exec) assert(st *State, kind, label string, goal Term, tags []string, pos token.Pos) {
	if st.dead || x.vc.silent > 0 {
		return
	}
	if goal.T.K != SBool {
		panic("assert non-bool goal " + goal.S)
	}
	if len(tags) == 0 && kind != "vacuity" {
		// a clause without its own tags supports everything the function serves
		tags = x.safetyTags
	}
	if len(x.modeTags) > 0 {
		// this verification mode is only claimed for the properties it names
		var keep []string
		for _, t := range tags {
			for _, m := range x.modeTags {
				if t == m {
					keep = append(keep, t)
				}
			}
		}
		tags = keep
		if len(tags) == 0 && kind != "vacuity" {
			return
		}
	}
	name := x.top.Key + "/" + kind
	if strings.HasPrefix(kind, "safety/") {
		x.ord[kind]++
		name += fmt.Sprintf("#%d", x.ord[kind])
	}
	if label != "" {
		name += "[" + label + "]"
	}
	if len(x.inlineStack) > 0 && !strings.HasPrefix(kind, "post") {
		name += "@" + strings.Join(x.inlineStack, ">")
	}
	if x.mode != "" {
		name += "{" + x.mode + "}"
	}
	o := &Obligation{Func: x.top.Key, Kind: kind, Label: label, Name: name, Tags: tags, Pos: x.posOf(pos), PC: st.pc, Goal: goal, Mode: x.mode,
		Strings: x.useStrings, SplitVar: x.splitVar, SplitBits: x.splitBits, Stale: x.assertStale}
	if goal.S == "true" || st.pc.S == "false" {
		o.Trivial = true
		o.Result = "unsat"
		o.Solver = "trivial"
	}
	x.vc.addObligation(o)
}

func (x *Exec) assertSafety(st *State, kind, what string, goal Term, pos token.Pos) {
	tags := x.safetyTags
	if kind == "lock" || kind == "block" {
		// the locking and blocking discipline is what "never blocks" (C05) and race freedom (C07) rest on, whatever
		// else the function at hand serves — unless the mode under verification is claimed for other properties only
		tags = append([]string{}, tags...)
		for _, t := range []string{"C05", "C07"} {
			if !hasTag(tags, t) && (len(x.modeTags) == 0 || hasTag(x.modeTags, t)) {
				tags = append(tags, t)
			}
		}
	}
	x.assert(st, "safety/"+kind, what, goal, tags, pos)
}

func (x *Exec) assume(st *State, t Term) {
	if st.dead {
		return
	}
	x.vc.assume(tImp(st.pc, t))
}

// ---- statements ----

func (x *Exec) block(list []ast.Stmt, st *State) {
	for _, s := range list {
		if st.dead {
			return
		}
		x.stmt(s, st)
	}
}

func (x *Exec) stmt(s ast.Stmt, st *State) {
	if st.dead {
		return
	}
	switch s := s.(type) {
	case *ast.BlockStmt:
		x.block(s.List, st)
	case *ast.ExprStmt:
		x.expr(s.X, st)
	case *ast.AssignStmt:
		x.assignStmt(s, st)
	case *ast.IncDecStmt:
		cur := x.expr(s.X, st).(Term)
		t := x.info.TypeOf(s.X)
		one := x.constOfSort(1, cur.T)
		var nv Term
		if s.Tok == token.INC {
			nv = x.arith(token.ADD, cur, one, t, s, st)
		} else {
			nv = x.arith(token.SUB, cur, one, t, s, st)
		}
		x.assign(s.X, nv, st)
	case *ast.DeclStmt:
		gd, ok := s.Decl.(*ast.GenDecl)
		if !ok || gd.Tok != token.VAR {
			if ok && (gd.Tok == token.CONST || gd.Tok == token.TYPE) {
				return
			}
			x.unsupported(s, "declaration")
		}
		for _, sp := range gd.Specs {
			vs := sp.(*ast.ValueSpec)
			if len(vs.Values) == 1 && len(vs.Names) > 1 {
				v := x.expr(vs.Values[0], st)
				tv := v.(TupleV)
				for i, n := range vs.Names {
					if obj := x.info.Defs[n]; obj != nil {
						st.vars[obj] = tv[i]
					}
				}
				continue
			}
			for i, n := range vs.Names {
				obj := x.info.Defs[n]
				if obj == nil {
					continue
				}
				if i < len(vs.Values) {
					st.vars[obj] = x.convertAssign(x.expr(vs.Values[i], st), x.info.TypeOf(vs.Values[i]), obj.Type(), st)
				} else {
					st.vars[obj] = x.zeroValue(obj.Type())
				}
			}
		}
	case *ast.IfStmt:
		if s.Init != nil {
			x.stmt(s.Init, st)
		}
		c := x.cond(s.Cond, st)
		s1, s2 := st.clone(), st.clone()
		x.addPC(s1, c)
		x.addPC(s2, tNot(c))
		x.block(s.Body.List, s1)
		if s.Else != nil {
			x.stmt(s.Else, s2)
		}
		st.set(x.merge(s1, s2))
	case *ast.ForStmt:
		x.forStmt(s, st, "")
	case *ast.RangeStmt:
		x.rangeStmt(s, st, "")
	case *ast.LabeledStmt:
		switch in := s.Stmt.(type) {
		case *ast.ForStmt:
			x.forStmt(in, st, s.Label.Name)
		case *ast.RangeStmt:
			x.rangeStmt(in, st, s.Label.Name)
		default:
			x.stmt(s.Stmt, st)
		}
	case *ast.SwitchStmt:
		x.switchStmt(s, st)
	case *ast.ReturnStmt:
		x.returnStmt(s, st)
	case *ast.BranchStmt:
		x.branchStmt(s, st)
	case *ast.DeferStmt:
		if len(s.Call.Args) != 0 {
			if _, isLit := s.Call.Fun.(*ast.FuncLit); !isLit {
				// arguments are evaluated when the defer statement runs; evaluating them when the call runs is
				// the same thing only if nothing can change them in between
				for _, a := range s.Call.Args {
					if !x.stableExpr(a) {
						x.unsupported(s, "defer with arguments")
					}
				}
			}
		}
		d := len(st.defers) - 1
		st.defers[d] = append(st.defers[d], &deferRec{call: s.Call})
	case *ast.GoStmt:
		x.goStmt(s, st)
	case *ast.SendStmt:
		x.sendStmt(s.Chan, s.Value, st, s.Pos(), true)
	case *ast.SelectStmt:
		x.selectStmt(s, st)
	case *ast.EmptyStmt:
	default:
		x.unsupported(s, "statement %T", s)
	}
}

func (x *Exec) cond(e ast.Expr, st *State) Term {
	v := x.expr(e, st)
	t, ok := v.(Term)
	if !ok || t.T.K != SBool {
		x.unsupported(e, "non-boolean condition")
	}
	return x.vc.name("c", t)
}

func (x *Exec) assignStmt(s *ast.AssignStmt, st *State) {
	switch {
	case s.Tok != token.ASSIGN && s.Tok != token.DEFINE:
		// op=
		var op token.Token
		switch s.Tok {
		case token.ADD_ASSIGN:
			op = token.ADD
		case token.SUB_ASSIGN:
			op = token.SUB
		case token.MUL_ASSIGN:
			op = token.MUL
		case token.QUO_ASSIGN:
			op = token.QUO
		case token.REM_ASSIGN:
			op = token.REM
		case token.AND_ASSIGN:
			op = token.AND
		case token.OR_ASSIGN:
			op = token.OR
		case token.XOR_ASSIGN:
			op = token.XOR
		case token.SHL_ASSIGN:
			op = token.SHL
		case token.SHR_ASSIGN:
			op = token.SHR
		case token.AND_NOT_ASSIGN:
			op = token.AND_NOT
		}
		l := x.expr(s.Lhs[0], st).(Term)
		r := x.expr(s.Rhs[0], st).(Term)
		nv := x.binop(op, l, r, x.info.TypeOf(s.Lhs[0]), x.info.TypeOf(s.Rhs[0]), s, st)
		x.assign(s.Lhs[0], nv, st)
	case len(s.Lhs) == len(s.Rhs):
		vals := make([]Value, len(s.Rhs))
		for i, r := range s.Rhs {
			vals[i] = x.expr(r, st)
			var lt types.Type
			if id, ok := s.Lhs[i].(*ast.Ident); ok && id.Name == "_" {
				continue
			} else if ok && s.Tok == token.DEFINE {
				if o := x.info.Defs[id]; o != nil {
					lt = o.Type()
				} else if o := x.info.Uses[id]; o != nil {
					lt = o.Type()
				}
			} else {
				lt = x.info.TypeOf(s.Lhs[i])
			}
			if lt != nil {
				vals[i] = x.convertAssign(vals[i], x.info.TypeOf(r), lt, st)
			}
		}
		for i, l := range s.Lhs {
			x.assignOrDefine(l, vals[i], st, s.Tok == token.DEFINE)
		}
	case len(s.Rhs) == 1:
		v := x.exprMulti(s.Rhs[0], st, len(s.Lhs))
		for i, l := range s.Lhs {
			x.assignOrDefine(l, v[i], st, s.Tok == token.DEFINE)
		}
	default:
		x.unsupported(s, "assignment shape")
	}
}

func (x *Exec) assignOrDefine(l ast.Expr, v Value, st *State, define bool) {
	if id, ok := l.(*ast.Ident); ok {
		if id.Name == "_" {
			return
		}
		if define {
			if obj := x.info.Defs[id]; obj != nil {
				st.vars[obj] = v
				return
			}
		}
	}
	x.assign(l, v, st)
}

// assign stores v into the location denoted by l.
func (x *Exec) assign(l ast.Expr, v Value, st *State) {
	switch l := l.(type) {
	case *ast.ParenExpr:
		x.assign(l.X, v, st)
	case *ast.Ident:
		if l.Name == "_" {
			return
		}
		obj := x.info.ObjectOf(l)
		if vr, ok := obj.(*types.Var); ok && vr.Parent() == vr.Pkg().Scope() {
			key := x.globalKey(vr)
			x.assertSafety(st, "frame", "package-level variable "+vr.Name()+" is never written", tFalse, l.Pos())
			x.setHeap(st, key, v)
			return
		}
		st.vars[obj] = v
	case *ast.SelectorExpr:
		sel := x.info.Selections[l]
		if sel == nil {
			x.unsupported(l, "assignment to qualified identifier")
		}
		x.assignSel(l, sel, v, st)
	case *ast.IndexExpr:
		bt := x.info.TypeOf(l.X)
		switch u := bt.Underlying().(type) {
		case *types.Map:
			m := x.expr(l.X, st).(Term)
			k := x.expr(l.Index, st).(Term)
			k = x.convertAssign(k, x.info.TypeOf(l.Index), u.Key(), st).(Term)
			x.assertSafety(st, "mapnil", "write to nil map", tNe(m, tNil), l.Pos())
			x.mapStore(st, u, m, k, v, l.Pos())
		case *types.Array:
			arr := x.expr(l.X, st)
			i := x.indexTerm(l.Index, st)
			x.boundsCheck(st, i, x.constOfSort(u.Len(), i.T), x.info.TypeOf(l.Index), l.Pos())
			x.assign(l.X, vSto(arr, i, v), st)
		case *types.Slice:
			sl := x.expr(l.X, st).(*StructV)
			i := x.indexTerm(l.Index, st)
			x.boundsCheck(st, i, sl.get("$len").(Term), x.info.TypeOf(l.Index), l.Pos())
			ni := x.addIdx(sl.get("$off").(Term), i)
			x.assign(l.X, sl.with("$arr", vSto(sl.get("$arr"), ni, v)), st)
		case *types.Pointer:
			// (*arr)[i] with implicit deref
			if at, ok := u.Elem().Underlying().(*types.Array); ok {
				p := x.expr(l.X, st).(Term)
				x.assertSafety(st, "nil", "nil pointer dereference", tNe(p, tNil), l.Pos())
				key := x.boxKey(u.Elem())
				arr := vSel(x.getHeap(st, key), p)
				i := x.indexTerm(l.Index, st)
				x.boundsCheck(st, i, x.constOfSort(at.Len(), i.T), x.info.TypeOf(l.Index), l.Pos())
				x.setHeap(st, key, vSto(x.getHeap(st, key), p, vSto(arr, i, v)))
				return
			}
			x.unsupported(l, "index assignment through pointer")
		default:
			x.unsupported(l, "index assignment on %s", bt)
		}
	case *ast.StarExpr:
		pv := x.expr(l.X, st)
		if pl, ok := pv.(PtrLocalV); ok {
			st.vars[pl.Obj] = v
			return
		}
		p := pv.(Term)
		x.assertSafety(st, "nil", "nil pointer dereference", tNe(p, tNil), l.Pos())
		pt := x.info.TypeOf(l.X).Underlying().(*types.Pointer)
		x.storeDeref(st, pt.Elem(), p, v, l.Pos())
	default:
		x.unsupported(l, "assignment target %T", l)
	}
}

func (x *Exec) assignSel(l *ast.SelectorExpr, sel *types.Selection, v Value, st *State) {
	// walk the selection path; the last step is the store
	idx := sel.Index()
	curT := x.info.TypeOf(l.X)
	if len(idx) == 1 {
		x.storeField(l.X, curT, idx[0], v, st, l.Pos())
		return
	}
	// embedded path: evaluate all but the last step as an rvalue
	cur := x.expr(l.X, st)
	for _, i := range idx[:len(idx)-1] {
		cur, curT = x.fieldStep(cur, curT, i, st, l.Pos())
	}
	p, isPtr := curT.Underlying().(*types.Pointer)
	if !isPtr {
		x.unsupported(l, "assignment through embedded struct value")
	}
	x.storeFieldPtr(st, p.Elem(), cur.(Term), idx[len(idx)-1], v, l.Pos())
}

// storeField stores into field i of the value/pointer denoted by base expression.
func (x *Exec) storeField(base ast.Expr, baseT types.Type, i int, v Value, st *State, pos token.Pos) {
	if p, ok := baseT.Underlying().(*types.Pointer); ok {
		pv := x.expr(base, st)
		if pl, isPL := pv.(PtrLocalV); isPL {
			sv := st.vars[pl.Obj].(*StructV)
			stt := p.Elem().Underlying().(*types.Struct)
			st.vars[pl.Obj] = sv.with(stt.Field(i).Name(), v)
			return
		}
		if lv, isLoc := pv.(LocV); isLoc {
			// a pointer into another object (&a[i], &s.f): store into the location it was taken from
			stt := p.Elem().Underlying().(*types.Struct)
			if len(lv.Path) == 0 {
				if sv, ok := x.expr(lv.Expr, st).(*StructV); ok {
					x.assign(lv.Expr, sv.with(stt.Field(i).Name(), v), st)
					return
				}
			}
			if t := x.info.TypeOf(lv.Expr); t != nil {
				x.abstractions["write through a pointer into an array element or field: the whole location becomes unconstrained"] = true
				x.assign(lv.Expr, x.freshTyped(t, "written", st), st)
				return
			}
			x.unsupported(base, "store through a pointer into another object")
		}
		x.storeFieldPtr(st, p.Elem(), pv.(Term), i, v, pos)
		return
	}
	stt, ok := baseT.Underlying().(*types.Struct)
	if !ok {
		x.unsupported(base, "field store on %s", baseT)
	}
	sv := x.expr(base, st).(*StructV)
	x.assign(base, sv.with(stt.Field(i).Name(), v), st)
}

func (x *Exec) storeFieldPtr(st *State, structT types.Type, p Term, i int, v Value, pos token.Pos) {
	stt := structT.Underlying().(*types.Struct)
	f := stt.Field(i)
	x.assertSafety(st, "nil", "nil pointer dereference (."+f.Name()+")", tNe(p, tNil), pos)
	key := x.fieldKey(structT, f)
	x.accessCheck(st, key, p, true, pos)
	x.setHeap(st, key, vSto(x.getHeap(st, key), p, v))
}

func (x *Exec) returnStmt(s *ast.ReturnStmt, st *State) {
	fr := x.frame()
	var vals []Value
	nres := fr.sig.Results().Len()
	switch {
	case len(s.Results) == 0:
		for _, o := range fr.results {
			vals = append(vals, st.vars[o])
		}
	case len(s.Results) == nres:
		for i, r := range s.Results {
			v := x.expr(r, st)
			vals = append(vals, x.convertAssign(v, x.info.TypeOf(r), fr.sig.Results().At(i).Type(), st))
		}
	case len(s.Results) == 1:
		vals = x.exprMulti(s.Results[0], st, nres)
	default:
		x.unsupported(s, "return shape")
	}
	if st.dead {
		return
	}
	// `atreturn` clauses of the function under verification: at this return, with the locals in scope
	if len(x.frames) == 1 && x.topC != nil && len(x.topC.AtReturn) > 0 && x.vc.silent == 0 {
		env := x.frameEnv(st)
		env.vars = copyVars(env.vars)
		for i := 0; i < fr.sig.Results().Len() && i < len(vals); i++ {
			name := fr.sig.Results().At(i).Name()
			if i < len(x.topC.ResultNames) {
				name = x.topC.ResultNames[i]
			}
			if name != "" && name != "_" {
				env.vars[name] = x.capture(TV{V: vals[i], T: fr.sig.Results().At(i).Type()}, env)
			}
		}
		for _, c := range x.topC.AtReturn {
			func() {
				defer func() {
					// a return before the clause's locals are declared is not one the clause speaks about
					if r := recover(); r != nil {
						if msg, ok := r.(string); ok && strings.HasPrefix(msg, "spec: unknown identifier") {
							return
						}
						panic(r)
					}
				}()
				parts := x.specConjuncts(c.Expr, env)
				x.atReturnHits[c]++
				for _, g := range parts {
					x.assert(st, "atreturn", g.label(c.Label), g.t, c.Tags, s.Pos())
				}
			}()
		}
	}
	x.doReturn(st, vals)
}

func (x *Exec) doReturn(st *State, vals []Value) {
	fr := x.frame()
	// named results get the values (deferred closures may observe them)
	for i, o := range fr.results {
		if i < len(vals) && o != nil {
			st.vars[o] = vals[i]
		}
	}
	d := len(st.defers) - 1
	defs := st.defers[d]
	st.defers[d] = nil
	for i := len(defs) - 1; i >= 0; i-- {
		if defs[i].cond != nil {
			// registered on some paths only: run it exactly on those
			s1, s2 := st.clone(), st.clone()
			x.addPC(s1, *defs[i].cond)
			x.addPC(s2, tNot(*defs[i].cond))
			s1.defers[d], s2.defers[d] = nil, nil
			x.runDeferred(defs[i], s1)
			st.set(x.merge(s1, s2))
		} else {
			x.runDeferred(defs[i], st)
		}
		if st.dead {
			break
		}
	}
	if st.dead {
		return
	}
	if len(fr.results) > 0 && fr.results[0] != nil && fr.results[0].Name() != "" && fr.results[0].Name() != "_" {
		for i, o := range fr.results {
			vals[i] = st.vars[o]
		}
	}
	fr.rets = append(fr.rets, retRec{st: st.clone(), vals: vals})
	st.dead = true
}

// stableExpr: a constant, or a chain of immutable fields rooted at a parameter or receiver that the function never assigns.
func (x *Exec) stableExpr(e ast.Expr) bool {
	e = unparen(e)
	if tv, ok := x.info.Types[e]; ok && tv.Value != nil {
		return true
	}
	switch v := e.(type) {
	case *ast.Ident:
		obj, ok := x.info.Uses[v].(*types.Var)
		if !ok || obj.IsField() {
			return false
		}
		fr := x.frame()
		if fr == nil || fr.sig == nil {
			return false
		}
		isParam := fr.sig.Recv() == obj
		for i := 0; i < fr.sig.Params().Len(); i++ {
			if fr.sig.Params().At(i) == obj {
				isParam = true
			}
		}
		if !isParam || fr.fi == nil || fr.fi.Decl == nil || fr.fi.Decl.Body == nil {
			return false
		}
		assigned := false
		ast.Inspect(fr.fi.Decl.Body, func(n ast.Node) bool {
			switch st := n.(type) {
			case *ast.AssignStmt:
				for _, l := range st.Lhs {
					if id, ok := unparen(l).(*ast.Ident); ok && x.info.ObjectOf(id) == obj {
						assigned = true
					}
				}
			case *ast.IncDecStmt:
				if id, ok := unparen(st.X).(*ast.Ident); ok && x.info.ObjectOf(id) == obj {
					assigned = true
				}
			case *ast.UnaryExpr:
				if id, ok := unparen(st.X).(*ast.Ident); ok && st.Op == token.AND && x.info.ObjectOf(id) == obj {
					assigned = true
				}
			}
			return true
		})
		return !assigned
	case *ast.SelectorExpr:
		sel := x.info.Selections[v]
		if sel == nil || sel.Kind() != types.FieldVal {
			return false
		}
		// every field on the (possibly embedded) path must be immutable after construction
		t := sel.Recv()
		for _, i := range sel.Index() {
			if p, ok := t.Underlying().(*types.Pointer); ok {
				t = p.Elem()
			}
			stt, ok := t.Underlying().(*types.Struct)
			if !ok {
				return false
			}
			f := stt.Field(i)
			if !x.prog.Contracts.Immutable[structName(t)+"."+f.Name()] {
				return false
			}
			t = f.Type()
		}
		return x.stableExpr(v.X)
	}
	return false
}

func (x *Exec) runDeferred(d *deferRec, st *State) {
	if lit, ok := d.call.Fun.(*ast.FuncLit); ok {
		// deferred closure: run its body in a nested frame
		sig := x.info.TypeOf(lit).(*types.Signature)
		x.inlineBody(nil, sig, lit.Body, nil, nil, st, "defer", nil)
		return
	}
	x.call(d.call, st, 0)
}

func (x *Exec) branchStmt(s *ast.BranchStmt, st *State) {
	label := ""
	if s.Label != nil {
		label = s.Label.Name
	}
	switch s.Tok {
	case token.BREAK:
		for i := len(x.loops) - 1; i >= 0; i-- {
			lc := x.loops[i]
			if label == "" || lc.label == label {
				lc.breaks = append(lc.breaks, st.clone())
				st.dead = true
				return
			}
		}
		x.unsupported(s, "break target")
	case token.CONTINUE:
		for i := len(x.loops) - 1; i >= 0; i-- {
			lc := x.loops[i]
			if lc.isSwitch {
				continue
			}
			if label == "" || lc.label == label {
				lc.conts = append(lc.conts, st.clone())
				st.dead = true
				return
			}
		}
		x.unsupported(s, "continue target")
	default:
		x.unsupported(s, "branch %s", s.Tok)
	}
}

func (x *Exec) switchStmt(s *ast.SwitchStmt, st *State) {
	if s.Init != nil {
		x.stmt(s.Init, st)
	}
	var tag Value
	var tagT types.Type
	if s.Tag != nil {
		tag = x.expr(s.Tag, st)
		tagT = x.info.TypeOf(s.Tag)
	}
	lc := &loopCtx{isSwitch: true}
	x.loops = append(x.loops, lc)
	rest := st.clone()
	var outs []*State
	var def *ast.CaseClause
	for _, c := range s.Body.List {
		cc := c.(*ast.CaseClause)
		if cc.List == nil {
			def = cc
			continue
		}
		var conds []Term
		for _, e := range cc.List {
			if tag != nil {
				v := x.expr(e, rest)
				v = x.convertAssign(v, x.info.TypeOf(e), tagT, rest)
				conds = append(conds, vEq(tag, v))
			} else {
				conds = append(conds, x.cond(e, rest))
			}
		}
		c1 := x.vc.name("c", tOr(conds...))
		body := rest.clone()
		x.addPC(body, c1)
		x.addPC(rest, tNot(c1))
		x.block(cc.Body, body)
		outs = append(outs, body)
	}
	if def != nil {
		x.block(def.Body, rest)
	}
	outs = append(outs, rest)
	x.loops = x.loops[:len(x.loops)-1]
	outs = append(outs, lc.breaks...)
	st.set(x.merge(outs...))
}

// ---- loops ----

func (x *Exec) loopSpec(n ast.Node) *LoopSpec {
	fr := x.frame()
	if fr.contract == nil || fr.loopOrd == nil {
		return nil
	}
	ord, ok := fr.loopOrd[n]
	if !ok {
		return nil
	}
	hdr := x.loopHeader(n)
	var byOrd, byHdr *LoopSpec
	nHdr := 0
	for _, ls := range fr.contract.Loops {
		if ls.Ord == ord {
			byOrd = ls
		}
		if ls.Header != "" && ls.Header == hdr {
			byHdr = ls
			nHdr++
		}
	}
	if byOrd != nil && (byOrd.Header == "" || byOrd.Header == hdr) {
		return byOrd
	}
	if nHdr == 1 {
		return byHdr
	}
	if byOrd != nil {
		// the loop was rewritten since its contract was written: the invariants are tried as they stand, but when they
		// are no longer established that says the contract is out of date, not that a property is broken
		if x.staleLoops == nil {
			x.staleLoops = map[*LoopSpec]string{}
		}
		x.staleLoops[byOrd] = fmt.Sprintf("loop %d of %s was `%s` when its contract was written and is `%s` now", ord, fr.contract.Key, byOrd.Header, hdr)
	}
	return byOrd
}

func (x *Exec) loopHeader(n ast.Node) string {
	s := x.nodeStr(n)
	if i := strings.Index(s, "{"); i >= 0 {
		s = s[:i]
	}
	return strings.TrimSpace(s)
}

// loopModified dry-runs the loop body to find what it may modify.
func (x *Exec) dryRun(st *State, f func(s *State) []*State) (vars map[types.Object]bool, heap map[string]bool) {
	nd, na, nf := len(x.vc.decls), len(x.vc.assumes), x.vc.n
	x.vc.silent++
	x.dryDepth++
	savedLoops, savedFrames := x.loops, x.frames
	retLens := make([]int, len(x.frames))
	for i, f := range x.frames {
		retLens[i] = len(f.rets)
	}
	savedOrd := map[string]int{}
	for k, v := range x.ord {
		savedOrd[k] = v
	}
	// a labelled break/continue inside the dry run may target an enclosing loop: those exit states belong to
	// the dry run (their terms are declared inside the truncated window) and must not reach the real loop
	type lcLen struct{ b, c int }
	lcLens := make([]lcLen, len(x.loops))
	for i, lc := range x.loops {
		lcLens[i] = lcLen{len(lc.breaks), len(lc.conts)}
	}
	defer func() {
		for i, lc := range savedLoops {
			if i < len(lcLens) {
				lc.breaks = lc.breaks[:lcLens[i].b]
				lc.conts = lc.conts[:lcLens[i].c]
			}
		}
		x.vc.silent--
		x.dryDepth--
		x.vc.decls = x.vc.decls[:nd]
		x.vc.assumes = x.vc.assumes[:na]
		_ = nf
		x.loops, x.frames = savedLoops, savedFrames
		for i, f := range x.frames {
			f.rets = f.rets[:retLens[i]]
		}
		x.ord = savedOrd
	}()
	s0 := st.clone()
	outs := f(s0)
	vars = map[types.Object]bool{}
	heap = map[string]bool{}
	for _, o := range outs {
		if o == nil {
			continue
		}
		for k, v := range o.vars {
			if ov, ok := st.vars[k]; ok && !vSame(ov, v) {
				vars[k] = true
			}
		}
		for k, v := range o.heap {
			if !vSame(x.getHeap(st, k), v) {
				heap[k] = true
			}
		}
	}
	return
}

func (x *Exec) havocVar(st *State, o types.Object) {
	switch st.vars[o].(type) {
	case Term, *StructV:
		st.vars[o] = x.freshValue(o.Type(), o.Name())
		x.assumeTypeInv(st.vars[o], o.Type(), st)
	}
}

func (x *Exec) havocHeap(st *State, key string) {
	old := x.getHeap(st, key)
	if strings.HasPrefix(key, "xclosed:") {
		// may only become closed
		oc := old.(Term)
		if oc.S == "true" {
			return
		}
		n := x.vc.fresh("closed", sortBool)
		x.assume(st, tImp(oc, n))
		st.heap[key] = n
		return
	}
	st.heap[key] = x.freshLike(old, key)
}

func (x *Exec) freshLike(v Value, hint string) Value {
	switch t := v.(type) {
	case Term:
		return x.vc.fresh(hint, t.T)
	case *StructV:
		n := &StructV{Names: t.Names, F: make([]Value, len(t.F))}
		for i, f := range t.F {
			if t.Names[i] == "$off" {
				if ft, ok := f.(Term); ok {
					n.F[i] = zeroOf(ft.T) // unknown slice: offset normalised to 0 (see baseLeaf)
					continue
				}
			}
			n.F[i] = x.freshLike(f, hint+"."+t.Names[i])
		}
		return n
	}
	return v
}

// constBoundLoop recognises `for i := c; i < N; i++ { … }` with compile-time constants c, N (N-c <= 32) whose body
// does not assign i: such a loop is unrolled completely (complete, the bound comes from the program text).
func (x *Exec) constBoundLoop(s *ast.ForStmt) (types.Object, int64, int64, bool) {
	as, ok := s.Init.(*ast.AssignStmt)
	if !ok || as.Tok != token.DEFINE || len(as.Lhs) != 1 || len(as.Rhs) != 1 {
		return nil, 0, 0, false
	}
	id, ok := as.Lhs[0].(*ast.Ident)
	if !ok {
		return nil, 0, 0, false
	}
	obj := x.info.Defs[id]
	tv, ok := x.info.Types[as.Rhs[0]]
	if obj == nil || !ok || tv.Value == nil {
		return nil, 0, 0, false
	}
	lo, ok1 := constBig(tv.Value)
	be, ok := s.Cond.(*ast.BinaryExpr)
	if !ok || !ok1 || (be.Op != token.LSS && be.Op != token.LEQ) {
		return nil, 0, 0, false
	}
	ci, ok := unparen(be.X).(*ast.Ident)
	if !ok || x.info.ObjectOf(ci) != obj {
		return nil, 0, 0, false
	}
	hv, ok := x.info.Types[be.Y]
	if !ok || hv.Value == nil {
		return nil, 0, 0, false
	}
	hi, ok2 := constBig(hv.Value)
	inc, ok := s.Post.(*ast.IncDecStmt)
	if !ok || !ok2 || inc.Tok != token.INC {
		return nil, 0, 0, false
	}
	pi, ok := unparen(inc.X).(*ast.Ident)
	if !ok || x.info.ObjectOf(pi) != obj {
		return nil, 0, 0, false
	}
	// the body must not assign the counter
	assigned := false
	ast.Inspect(s.Body, func(n ast.Node) bool {
		switch st := n.(type) {
		case *ast.AssignStmt:
			for _, l := range st.Lhs {
				if li, ok := unparen(l).(*ast.Ident); ok && x.info.ObjectOf(li) == obj {
					assigned = true
				}
			}
		case *ast.IncDecStmt:
			if li, ok := unparen(st.X).(*ast.Ident); ok && x.info.ObjectOf(li) == obj {
				assigned = true
			}
		case *ast.UnaryExpr:
			if li, ok := unparen(st.X).(*ast.Ident); ok && st.Op == token.AND && x.info.ObjectOf(li) == obj {
				assigned = true
			}
		}
		return true
	})
	h := hi.Int64()
	if be.Op == token.LEQ {
		h++
	}
	if assigned || !lo.IsInt64() || !hi.IsInt64() || h-lo.Int64() > 32 || h < lo.Int64() {
		return nil, 0, 0, false
	}
	return obj, lo.Int64(), h, true
}

func (x *Exec) forStmt(s *ast.ForStmt, st *State, label string) {
	if x.loopSpec(s) == nil && s.Init != nil && s.Cond != nil && s.Post != nil {
		if obj, lo, hi, ok := x.constBoundLoop(s); ok {
			var breaks []*State
			cur := st.clone()
			sort := x.scalarSort(obj.Type())
			for i := lo; i < hi && !cur.dead; i++ {
				cur.vars[obj] = x.constOfSort(i, sort)
				lc := &loopCtx{label: label}
				x.loops = append(x.loops, lc)
				x.block(s.Body.List, cur)
				x.loops = x.loops[:len(x.loops)-1]
				breaks = append(breaks, lc.breaks...)
				cur = x.merge(append(lc.conts, cur)...)
			}
			if !cur.dead {
				cur.vars[obj] = x.constOfSort(hi, sort)
			}
			st.set(x.merge(append(breaks, cur)...))
			return
		}
	}
	if s.Init != nil {
		x.stmt(s.Init, st)
	}
	// a counting loop (`for i := e; i < X; i++`, i assigned nowhere else): i never falls below its initial value.
	// This is an invariant by induction (the guard i < X keeps i+1 from wrapping), added without being asked for so
	// that an index loop needs no contract just to be memory-safe.
	var cntVar types.Object
	var cntInit Term
	if cv, ok := x.countingLoopVar(s); ok {
		if iv, isTerm := st.vars[cv].(Term); isTerm {
			cntVar, cntInit = cv, iv
		}
	}
	spec := x.loopSpec(s)
	env := x.loopEnv(st)
	env.loopVar = x.findLoopVar(s)
	if cntVar != nil && isZeroTerm(cntInit) && types.Identical(cntVar.Type().Underlying(), types.Typ[types.Int]) {
		env.loopIdxVar = cntVar
	}
	if spec != nil {
		for _, gs := range spec.Inits {
			v := x.specValue(gs.Expr, env.at(st))
			x.setHeap(st, x.ghostVarKey(gs.Var), x.coerceGhost(v.V, x.ghostVarKey(gs.Var), st))
		}
	}
	x.loopInvs(spec, st, env, "inv-init", s.Pos())

	body := func(sb *State, lc *loopCtx) []*State {
		x.loops = append(x.loops, lc)
		x.block(s.Body.List, sb)
		x.loops = x.loops[:len(x.loops)-1]
		back := x.merge(append(lc.conts, sb)...)
		if !back.dead && s.Post != nil {
			x.stmt(s.Post, back)
		}
		if !back.dead && spec != nil {
			x.ghostSteps(spec, back, env)
		}
		return []*State{back}
	}
	// modified set
	mv, mh := x.dryRun(st, func(s0 *State) []*State {
		lc := &loopCtx{label: label}
		if s.Cond != nil {
			c := x.cond(s.Cond, s0)
			x.addPC(s0, c)
		}
		outs := body(s0, lc)
		return append(outs, lc.breaks...)
	})
	for o := range mv {
		x.havocVar(st, o)
	}
	for k := range mh {
		x.havocHeap(st, k)
	}
	x.interfere(st)
	x.loopAssumeInvs(spec, st, env)
	if cntVar != nil {
		if cur, ok := st.vars[cntVar].(Term); ok && cur.T.Eq(cntInit.T) {
			if isSigned(cntVar.Type()) {
				x.assume(st, x.leIdxAny(cntInit, cur, true))
			} else {
				x.assume(st, x.leIdxAny(cntInit, cur, false))
			}
		}
	}
	var variant0 Term
	if spec != nil && spec.Decreases != nil {
		variant0 = x.specTerm(spec.Decreases.Expr, env.at(st))
	}
	var c Term = tTrue
	if s.Cond != nil {
		c = x.cond(s.Cond, st)
	}
	sb, se := st.clone(), st.clone()
	x.addPC(sb, c)
	x.addPC(se, tNot(c))
	lc := &loopCtx{label: label, head: sb.clone()}
	outs := body(sb, lc)
	back := outs[0]
	if !back.dead {
		x.loopInvs(spec, back, env, "inv-keep", s.Pos())
		if variant0.S != "" {
			v1 := x.specTerm(spec.Decreases.Expr, env.at(back))
			x.assert(back, "variant", spec.Decreases.Label, tAnd(x.ltInt(v1, variant0), x.geZero(v1)), spec.Decreases.Tags, s.Pos())
		}
	}
	if spec != nil {
		// what must hold when the loop is left: by its condition, and equally by a `break`
		for _, out := range append([]*State{se}, lc.breaks...) {
			for _, ex := range spec.Exits {
				for _, g := range x.specConjuncts(ex.Expr, env.at(out)) {
					x.assert(out, "loop-exit", fmt.Sprintf("loop%d: %s", spec.Ord, g.label(ex.Label)), g.t, ex.Tags, s.Pos())
				}
			}
		}
	}
	st.set(x.merge(append(lc.breaks, se)...))
}

func (x *Exec) ltInt(a, b Term) Term {
	if a.T.K == SBV {
		return mk(sortBool, "bvslt", a, b)
	}
	return mk(sortBool, "<", a, b)
}

func (x *Exec) geZero(a Term) Term {
	if a.T.K == SBV {
		return mk(sortBool, "bvsge", a, zeroOf(a.T))
	}
	return mk(sortBool, ">=", a, zeroOf(a.T))
}

func (x *Exec) rangeStmt(s *ast.RangeStmt, st *State, label string) {
	xt := x.info.TypeOf(s.X)
	bind := func(e ast.Expr, v Value, sb *State) {
		if e == nil {
			return
		}
		if id, ok := e.(*ast.Ident); ok && id.Name == "_" {
			return
		}
		x.assignOrDefine(e, v, sb, s.Tok == token.DEFINE)
	}
	spec := x.loopSpec(s)
	switch u := xt.Underlying().(type) {
	case *types.Array:
		arr := x.expr(s.X, st)
		n := int(u.Len())
		if n > 64 {
			x.unsupported(s, "range over large array")
		}
		var breaks []*State
		cur := st.clone()
		for i := 0; i < n && !cur.dead; i++ {
			it := x.constOfSort(int64(i), x.idxSort())
			bind(s.Key, it, cur)
			if s.Value != nil {
				bind(s.Value, vSel(arr, it), cur)
			}
			lc := &loopCtx{label: label}
			x.loops = append(x.loops, lc)
			x.block(s.Body.List, cur)
			x.loops = x.loops[:len(x.loops)-1]
			breaks = append(breaks, lc.breaks...)
			cur = x.merge(append(lc.conts, cur)...)
		}
		st.set(x.merge(append(breaks, cur)...))
	case *types.Slice:
		sl := x.expr(s.X, st).(*StructV)
		x.rangeIndexed(s, st, label, spec, sl.get("$len").(Term), func(i Term) Value {
			return vSel(sl.get("$arr"), x.addIdx(sl.get("$off").(Term), i))
		}, bind)
	case *types.Map:
		x.rangeMap(s, st, label, spec, u, bind)
	default:
		x.unsupported(s, "range over %s", xt)
	}
}

// rangeIndexed: for i := 0; i < n; i++ with a hidden index
func (x *Exec) rangeIndexed(s *ast.RangeStmt, st *State, label string, spec *LoopSpec, n Term, elem func(i Term) Value, bind func(ast.Expr, Value, *State)) {
	is := x.idxSort()
	idxKey := fmt.Sprintf("gv:$idx%d", len(x.loops))
	x.registerHeap(idxKey, func() Value { return x.vc.freshBase("idx", is) })
	x.setHeap(st, idxKey, zeroOf(is))
	env := x.loopEnv(st)
	env.loopIdxKey = idxKey
	if spec != nil {
		for _, gs := range spec.Inits {
			v := x.specValue(gs.Expr, env.at(st))
			x.setHeap(st, x.ghostVarKey(gs.Var), x.coerceGhost(v.V, x.ghostVarKey(gs.Var), st))
		}
	}
	x.loopInvs(spec, st, env, "inv-init", s.Pos())
	one := x.constOfSort(1, is)
	body := func(sb *State, lc *loopCtx) *State {
		i := x.getHeap(sb, idxKey).(Term)
		bind(s.Key, i, sb)
		if s.Value != nil {
			bind(s.Value, elem(i), sb)
		}
		x.loops = append(x.loops, lc)
		x.block(s.Body.List, sb)
		x.loops = x.loops[:len(x.loops)-1]
		back := x.merge(append(lc.conts, sb)...)
		if !back.dead {
			i := x.getHeap(back, idxKey).(Term)
			x.setHeap(back, idxKey, x.addIdx(i, one))
			if spec != nil {
				x.ghostSteps(spec, back, env)
			}
		}
		return back
	}
	lt := func(a, b Term) Term {
		if a.T.K == SBV {
			return mk(sortBool, "bvslt", a, b)
		}
		return mk(sortBool, "<", a, b)
	}
	mv, mh := x.dryRun(st, func(s0 *State) []*State {
		lc := &loopCtx{label: label}
		b := body(s0, lc)
		return append(lc.breaks, b)
	})
	for o := range mv {
		x.havocVar(st, o)
	}
	for k := range mh {
		x.havocHeap(st, k)
	}
	x.interfere(st)
	i := x.getHeap(st, idxKey).(Term)
	x.assume(st, tAnd(x.geZero(i), tNot(lt(n, i))))
	x.loopAssumeInvs(spec, st, env)
	c := lt(i, n)
	sb, se := st.clone(), st.clone()
	x.addPC(sb, c)
	x.addPC(se, tNot(c))
	lc := &loopCtx{label: label, head: sb.clone()}
	back := body(sb, lc)
	if !back.dead {
		x.loopInvs(spec, back, env, "inv-keep", s.Pos())
	}
	if spec != nil {
		// what must hold when the loop is left: by exhausting the range, and equally by a `break`
		for _, out := range append([]*State{se}, lc.breaks...) {
			for _, ex := range spec.Exits {
				for _, g := range x.specConjuncts(ex.Expr, env.at(out)) {
					x.assert(out, "loop-exit", fmt.Sprintf("loop%d: %s", spec.Ord, g.label(ex.Label)), g.t, ex.Tags, s.Pos())
				}
			}
		}
	}
	st.set(x.merge(append(lc.breaks, se)...))
}

func (x *Exec) rangeMap(s *ast.RangeStmt, st *State, label string, spec *LoopSpec, mt *types.Map, bind func(ast.Expr, Value, *State)) {
	m := x.expr(s.X, st).(Term)
	ks := x.scalarSort(mt.Key())
	visKey := fmt.Sprintf("gv:$visited%d.%s", len(x.loops), sanitize(ks.String()))
	vs := sortArr(ks, sortBool)
	x.registerHeap(visKey, func() Value { return x.vc.freshBase("visited", vs) })
	x.setHeap(st, visKey, zeroOf(vs))
	hasKey, valKey := x.mapKeys(mt)
	has0 := tSelect(x.getHeap(st, hasKey).(Term), m)
	has0 = x.vc.name("has0", has0)
	env := x.loopEnv(st)
	env.visitedKey = visKey
	if spec != nil {
		for _, gs := range spec.Inits {
			v := x.specValue(gs.Expr, env.at(st))
			x.setHeap(st, x.ghostVarKey(gs.Var), x.coerceGhost(v.V, x.ghostVarKey(gs.Var), st))
		}
	}
	x.loopInvs(spec, st, env, "inv-init", s.Pos())
	body := func(sb *State, lc *loopCtx) *State {
		k := x.vc.fresh("k", ks)
		vis := x.getHeap(sb, visKey).(Term)
		hasNow := tSelect(x.getHeap(sb, hasKey).(Term), m)
		x.assume(sb, tAnd(tSelect(hasNow, k), tNot(tSelect(vis, k)), tSelect(has0, k)))
		x.setHeap(sb, visKey, tStore(vis, k, tTrue))
		bind(s.Key, k, sb)
		if s.Value != nil {
			x.accessCheck(sb, valKey, m, false, s.Pos())
			bind(s.Value, vSel(vSel(x.getHeap(sb, valKey), m), k), sb)
		}
		x.loops = append(x.loops, lc)
		x.block(s.Body.List, sb)
		x.loops = x.loops[:len(x.loops)-1]
		back := x.merge(append(lc.conts, sb)...)
		if !back.dead && spec != nil {
			x.ghostSteps(spec, back, env)
		}
		return back
	}
	x.accessCheck(st, hasKey, m, false, s.Pos())
	mv, mh := x.dryRun(st, func(s0 *State) []*State {
		lc := &loopCtx{label: label}
		b := body(s0, lc)
		return append(lc.breaks, b)
	})
	for o := range mv {
		x.havocVar(st, o)
	}
	for k := range mh {
		x.havocHeap(st, k)
	}
	x.loopAssumeInvs(spec, st, env)
	more := x.vc.fresh("more", sortBool)
	sb, se := st.clone(), st.clone()
	x.addPC(sb, more)
	x.addPC(se, tNot(more))
	// exit: every key present at loop entry and still present has been visited
	qk := Term{"qk", ks}
	visE := x.getHeap(se, visKey).(Term)
	hasE := tSelect(x.getHeap(se, hasKey).(Term), m)
	x.assume(se, Term{fmt.Sprintf("(forall ((qk %s)) (! (=> (and %s %s) %s) :pattern (%s) :pattern (%s)))", ks,
		tSelect(has0, qk).S, tSelect(hasE, qk).S, tSelect(visE, qk).S, tSelect(visE, qk).S, tSelect(hasE, qk).S), sortBool})
	lc := &loopCtx{label: label, head: sb.clone()}
	back := body(sb, lc)
	if !back.dead {
		x.loopInvs(spec, back, env, "inv-keep", s.Pos())
	}
	st.set(x.merge(append(lc.breaks, se)...))
}

// ---- loop invariants ----

type loopEnvT struct {
	base       *SpecEnv
	loopIdxKey string
	visitedKey string
	loopVar    types.Object
	loopIdxVar types.Object
	entry      *State
}

func (le *loopEnvT) at(st *State) *SpecEnv {
	e := *le.base
	e.st = st
	e.loopEntry = le.entry
	e.loopIdxKey = le.loopIdxKey
	e.visitedKey = le.visitedKey
	e.loopVar = le.loopVar
	e.loopIdxVar = le.loopIdxVar
	return &e
}

func (x *Exec) loopEnv(st *State) *loopEnvT {
	return &loopEnvT{base: x.frameEnv(st), entry: st.clone()}
}

// countingLoopVar recognises `for i := e; i < X (or i <= X); i++ (or i += c, c > 0 constant)` where the body does not
// assign i or take its address.
func (x *Exec) countingLoopVar(s *ast.ForStmt) (types.Object, bool) {
	if s.Init == nil || s.Cond == nil || s.Post == nil {
		return nil, false
	}
	as, ok := s.Init.(*ast.AssignStmt)
	if !ok || len(as.Lhs) != 1 || len(as.Rhs) != 1 {
		return nil, false
	}
	id, ok := as.Lhs[0].(*ast.Ident)
	if !ok {
		return nil, false
	}
	obj := x.info.ObjectOf(id)
	if obj == nil || !isInteger(obj.Type()) {
		return nil, false
	}
	be, ok := unparen(s.Cond).(*ast.BinaryExpr)
	if !ok || (be.Op != token.LSS && be.Op != token.LEQ) {
		return nil, false
	}
	if cid, ok := unparen(be.X).(*ast.Ident); !ok || x.info.ObjectOf(cid) != obj {
		return nil, false
	}
	switch p := s.Post.(type) {
	case *ast.IncDecStmt:
		if pid, ok := unparen(p.X).(*ast.Ident); !ok || x.info.ObjectOf(pid) != obj || p.Tok != token.INC {
			return nil, false
		}
	case *ast.AssignStmt:
		if p.Tok != token.ADD_ASSIGN || len(p.Lhs) != 1 || len(p.Rhs) != 1 {
			return nil, false
		}
		if pid, ok := unparen(p.Lhs[0]).(*ast.Ident); !ok || x.info.ObjectOf(pid) != obj {
			return nil, false
		}
		tv, ok := x.info.Types[p.Rhs[0]]
		if !ok || tv.Value == nil || constant.Sign(tv.Value) <= 0 {
			return nil, false
		}
	default:
		return nil, false
	}
	touched := false
	ast.Inspect(s.Body, func(n ast.Node) bool {
		switch st := n.(type) {
		case *ast.AssignStmt:
			for _, l := range st.Lhs {
				if lid, ok := unparen(l).(*ast.Ident); ok && x.info.ObjectOf(lid) == obj {
					touched = true
				}
			}
		case *ast.IncDecStmt:
			if lid, ok := unparen(st.X).(*ast.Ident); ok && x.info.ObjectOf(lid) == obj {
				touched = true
			}
		case *ast.UnaryExpr:
			if lid, ok := unparen(st.X).(*ast.Ident); ok && st.Op == token.AND && x.info.ObjectOf(lid) == obj {
				touched = true
			}
		case *ast.RangeStmt:
			for _, l := range []ast.Expr{st.Key, st.Value} {
				if l != nil {
					if lid, ok := unparen(l).(*ast.Ident); ok && x.info.ObjectOf(lid) == obj {
						touched = true
					}
				}
			}
		}
		return true
	})
	return obj, !touched
}

// leIdxAny: a <= b for two terms of the same integer sort (bit-vector signed/unsigned, or mathematical)
func (x *Exec) leIdxAny(a, b Term, signed bool) Term {
	if a.T.K == SBV {
		if signed {
			return mk(sortBool, "bvsle", a, b)
		}
		return mk(sortBool, "bvule", a, b)
	}
	return mk(sortBool, "<=", a, b)
}

// findLoopVar: the unique local mentioned in the loop condition and assigned in the loop.
func (x *Exec) findLoopVar(s *ast.ForStmt) types.Object {
	if s.Cond == nil {
		return nil
	}
	inCond := map[types.Object]bool{}
	ast.Inspect(s.Cond, func(n ast.Node) bool {
		if id, ok := n.(*ast.Ident); ok {
			if v, ok := x.info.Uses[id].(*types.Var); ok && v.Parent() != v.Pkg().Scope() && !v.IsField() {
				inCond[v] = true
			}
		}
		return true
	})
	assigned := map[types.Object]bool{}
	mark := func(e ast.Expr) {
		if id, ok := unparen(e).(*ast.Ident); ok {
			if o := x.info.ObjectOf(id); o != nil && inCond[o] {
				assigned[o] = true
			}
		}
	}
	visit := func(n ast.Node) bool {
		switch st := n.(type) {
		case *ast.AssignStmt:
			for _, l := range st.Lhs {
				mark(l)
			}
		case *ast.IncDecStmt:
			mark(st.X)
		}
		return true
	}
	ast.Inspect(s.Body, visit)
	if s.Post != nil {
		ast.Inspect(s.Post, visit)
	}
	if len(assigned) != 1 {
		return nil
	}
	for o := range assigned {
		return o
	}
	return nil
}

func (x *Exec) loopInvs(spec *LoopSpec, st *State, env *loopEnvT, kind string, pos token.Pos) {
	if spec == nil || st.dead {
		return
	}
	x.assertStale = x.staleLoops[spec]
	defer func() { x.assertStale = "" }()
	for _, inv := range spec.Invs {
		x.curLabel = inv.Label
		for _, g := range x.specConjuncts(inv.Expr, env.at(st)) {
			x.assert(st, kind, fmt.Sprintf("loop%d: %s", spec.Ord, g.label(inv.Label)), g.t, inv.Tags, pos)
		}
	}
}

func (x *Exec) loopAssumeInvs(spec *LoopSpec, st *State, env *loopEnvT) {
	if spec == nil {
		return
	}
	for _, inv := range spec.Invs {
		x.assume(st, x.specTerm(inv.Expr, env.at(st)))
	}
}

func (x *Exec) ghostSteps(spec *LoopSpec, st *State, env *loopEnvT) {
	if st.pc.S == "false" {
		return // a back edge that cannot be taken (e.g. behind a constant-false platform test)
	}
	for _, gs := range spec.Steps {
		v := x.specValue(gs.Expr, env.at(st))
		x.setHeap(st, x.ghostVarKey(gs.Var), x.coerceGhost(v.V, x.ghostVarKey(gs.Var), st))
	}
}

func (x *Exec) coerceGhost(v Value, key string, st *State) Value {
	if c, ok := v.(ConstV); ok {
		cur := x.getHeap(st, key).(Term)
		return x.constToSort(c, cur.T)
	}
	return v
}

// ---- verification entry point ----

type VerifyResult struct {
	Func         string
	Mode         string
	Obligations  []*Obligation
	Abstractions []string
	Err          string
}

func loopOrdinals(body ast.Node) map[ast.Node]int {
	m := map[ast.Node]int{}
	n := 0
	ast.Inspect(body, func(nd ast.Node) bool {
		switch nd.(type) {
		case *ast.ForStmt, *ast.RangeStmt:
			n++
			m[nd] = n
		}
		return true
	})
	return m
}

func sortedObls(os []*Obligation) []*Obligation {
	sort.SliceStable(os, func(i, j int) bool { return os[i].Name < os[j].Name })
	return os
}


// ghostVarKey: a ghost step/init may update a function-local ghost variable or a declared global ghost.
func (x *Exec) ghostVarKey(name string) string {
	if g, ok := x.prog.Contracts.Ghosts[name]; ok && g.Owner == "" {
		return x.ghostKey(name)
	}
	return "gv:" + name
}


func isZeroTerm(t Term) bool {
	return t.S == "0" || t.S == "#x0000000000000000"
}
