package main

// Go-level symbolic values. Scalars (and SMT arrays of scalars) are Terms;
// struct values are flattened into one Value per field; slices are the struct
// {$arr,$off,$len}; "lifting" a value shape over an index sort turns every
// scalar leaf into an SMT array (used for heap fields, Go arrays, map values).

import (
	"fmt"
	"go/ast"
	"go/constant"
	"go/types"
	"sort"
	"strings"
)

type Value interface{}

type StructV struct {
	Names []string
	F     []Value
}

func (s *StructV) get(name string) Value {
	for i, n := range s.Names {
		if n == name {
			return s.F[i]
		}
	}
	panic("StructV: no field " + name + " in " + strings.Join(s.Names, ","))
}

func (s *StructV) with(name string, v Value) *StructV {
	n := &StructV{Names: s.Names, F: append([]Value(nil), s.F...)}
	for i, nm := range n.Names {
		if nm == name {
			n.F[i] = v
			return n
		}
	}
	panic("StructV: no field " + name)
}

// ClosureV is a function literal bound to a local; inlined at calls.
type ClosureV struct {
	Lit *ast.FuncLit
}

// FuncV is a reference to a declared function (possibly a bound method).
type FuncV struct {
	Fn   *types.Func
	Recv Value
}

// PtrLocalV is &local (only valid as a call argument / short-lived).
type PtrLocalV struct {
	Obj types.Object
}

type TupleV []Value

// MapC is the contents of a map in some state (spec language only).
type MapC struct {
	Ref  Term
	Has  Term  // Array K Bool
	Val  Value // lifted over K
	KeyT types.Type
	ValT types.Type
}

// ConstV is an untyped constant in a spec expression, resolved against its peer.
type ConstV struct {
	V constant.Value
}

func isSlice(v Value) bool {
	s, ok := v.(*StructV)
	return ok && len(s.Names) == 3 && s.Names[0] == "$arr"
}

func vSel(v Value, idx Term) Value {
	switch v := v.(type) {
	case Term:
		return tSelect(v, idx)
	case *StructV:
		n := &StructV{Names: v.Names, F: make([]Value, len(v.F))}
		for i, f := range v.F {
			n.F[i] = vSel(f, idx)
		}
		return n
	}
	panic(fmt.Sprintf("vSel on %T", v))
}

func vSto(arr Value, idx Term, v Value) Value {
	switch a := arr.(type) {
	case Term:
		return tStore(a, idx, v.(Term))
	case *StructV:
		vs := v.(*StructV)
		n := &StructV{Names: a.Names, F: make([]Value, len(a.F))}
		for i, f := range a.F {
			n.F[i] = vSto(f, idx, vs.F[i])
		}
		return n
	}
	panic(fmt.Sprintf("vSto on %T", arr))
}

func vIte(c Term, a, b Value) Value {
	switch x := a.(type) {
	case Term:
		return tIte(c, x, b.(Term))
	case *StructV:
		y := b.(*StructV)
		n := &StructV{Names: x.Names, F: make([]Value, len(x.F))}
		for i := range x.F {
			n.F[i] = vIte(c, x.F[i], y.F[i])
		}
		return n
	case nil:
		return b
	}
	if vSame(a, b) {
		return a
	}
	panic(fmt.Sprintf("vIte on %T / %T", a, b))
}

func vSame(a, b Value) bool {
	switch x := a.(type) {
	case Term:
		y, ok := b.(Term)
		return ok && x.S == y.S
	case *StructV:
		y, ok := b.(*StructV)
		if !ok || len(x.F) != len(y.F) {
			return false
		}
		for i := range x.F {
			if !vSame(x.F[i], y.F[i]) {
				return false
			}
		}
		return true
	case ClosureV:
		y, ok := b.(ClosureV)
		return ok && x.Lit == y.Lit
	case FuncV:
		y, ok := b.(FuncV)
		return ok && x.Fn == y.Fn && vSame(x.Recv, y.Recv)
	case PtrLocalV:
		y, ok := b.(PtrLocalV)
		return ok && x.Obj == y.Obj
	case LocV:
		y, ok := b.(LocV)
		if !ok || x.Expr != y.Expr || len(x.Path) != len(y.Path) {
			return false
		}
		for i := range x.Path {
			if x.Path[i] != y.Path[i] {
				return false
			}
		}
		return true
	case TupleV:
		y, ok := b.(TupleV)
		if !ok || len(x) != len(y) {
			return false
		}
		for i := range x {
			if !vSame(x[i], y[i]) {
				return false
			}
		}
		return true
	case nil:
		return b == nil
	}
	return false
}

// vEq: structural equality as a Bool term.
func vEq(a, b Value) Term {
	switch x := a.(type) {
	case Term:
		return tEq(x, b.(Term))
	case *StructV:
		y := b.(*StructV)
		var cs []Term
		for i := range x.F {
			cs = append(cs, vEq(x.F[i], y.F[i]))
		}
		return tAnd(cs...)
	}
	panic(fmt.Sprintf("vEq on %T", a))
}

func vLeaves(v Value, f func(Term)) {
	switch x := v.(type) {
	case Term:
		f(x)
	case *StructV:
		for _, y := range x.F {
			vLeaves(y, f)
		}
	}
}

// mkValue builds a value of Go type t whose scalar leaves are produced by
// leaf(sort lifted over lifts, path).
func (x *Exec) mkValue(t types.Type, lifts []*Sort, path string, leaf func(s *Sort, path string) Term) Value {
	lifted := func(s *Sort) *Sort {
		for i := len(lifts) - 1; i >= 0; i-- {
			s = sortArr(lifts[i], s)
		}
		return s
	}
	if s := x.scalarSort(t); s != nil {
		return leaf(lifted(s), path)
	}
	switch u := t.Underlying().(type) {
	case *types.Struct:
		sv := &StructV{}
		for i := 0; i < u.NumFields(); i++ {
			f := u.Field(i)
			if x.skipField(f) {
				continue
			}
			sv.Names = append(sv.Names, f.Name())
			sv.F = append(sv.F, x.mkValue(f.Type(), lifts, path+"."+f.Name(), leaf))
		}
		return sv
	case *types.Array:
		return x.mkValue(u.Elem(), append(append([]*Sort(nil), lifts...), x.idxSort()), path, leaf)
	case *types.Slice:
		return &StructV{Names: []string{"$arr", "$off", "$len"}, F: []Value{
			x.mkValue(u.Elem(), append(append([]*Sort(nil), lifts...), x.idxSort()), path+".$arr", leaf),
			leaf(lifted(x.idxSort()), path+".$off"),
			leaf(lifted(x.idxSort()), path+".$len"),
		}}
	case *types.Tuple:
		var tv TupleV
		for i := 0; i < u.Len(); i++ {
			tv = append(tv, x.mkValue(u.At(i).Type(), lifts, fmt.Sprintf("%s.%d", path, i), leaf))
		}
		return tv
	}
	panic("mkValue: unsupported type " + t.String())
}

func (x *Exec) skipField(f *types.Var) bool {
	// sync primitives carry no modelled data (ghost 'held' is separate)
	if n, ok := f.Type().(*types.Named); ok {
		if p := n.Obj().Pkg(); p != nil && p.Path() == "sync" {
			return true
		}
	}
	return false
}

func (x *Exec) zeroValue(t types.Type) Value {
	return x.mkValue(t, nil, "", func(s *Sort, _ string) Term { return zeroOf(s) })
}

func (x *Exec) freshValue(t types.Type, hint string) Value {
	return x.mkValue(t, nil, hint, func(s *Sort, p string) Term {
		// an unknown slice (arr, off, len) is observationally the same as (arr', 0, len): value semantics, no aliasing modelled
		if strings.HasSuffix(p, ".$off") {
			return zeroOf(s)
		}
		return x.vc.fresh(p, s)
	})
}

// scalarSort returns the SMT sort for Go types represented by one term, or nil.
func (x *Exec) scalarSort(t types.Type) *Sort {
	if isErrorType(t) {
		return sortErr
	}
	if n, ok := t.(*types.Named); ok && n.Obj().Pkg() != nil && n.Obj().Pkg().Path() == "strings" && n.Obj().Name() == "Builder" {
		return sortStr
	}
	switch u := t.Underlying().(type) {
	case *types.Basic:
		switch u.Kind() {
		case types.Bool, types.UntypedBool:
			return sortBool
		case types.Int8, types.Uint8:
			return sortBV(8)
		case types.Int16, types.Uint16:
			return sortBV(16)
		case types.Int32, types.Uint32, types.UntypedRune:
			return sortBV(32)
		case types.Int64, types.Uint64:
			return sortBV(64)
		case types.Int, types.Uint, types.Uintptr, types.UntypedInt:
			if x.mathInt {
				return sortInt
			}
			return sortBV(64)
		case types.String, types.UntypedString:
			return sortStr
		case types.UnsafePointer, types.UntypedNil:
			return sortRef
		case types.Float64, types.Float32, types.UntypedFloat:
			return sortUnint("Float")
		}
	case *types.Pointer, *types.Map, *types.Chan, *types.Interface, *types.Signature:
		return sortRef
	}
	return nil
}

func (x *Exec) idxSort() *Sort {
	if x.mathInt {
		return sortInt
	}
	return sortBV(64)
}

func isErrorType(t types.Type) bool {
	if n, ok := t.(*types.Named); ok && n.Obj().Pkg() == nil && n.Obj().Name() == "error" {
		return true
	}
	return false
}

func isSigned(t types.Type) bool {
	if b, ok := t.Underlying().(*types.Basic); ok {
		return b.Info()&types.IsInteger != 0 && b.Info()&types.IsUnsigned == 0
	}
	return false
}

func isInteger(t types.Type) bool {
	b, ok := t.Underlying().(*types.Basic)
	return ok && b.Info()&types.IsInteger != 0
}

func isString(t types.Type) bool {
	b, ok := t.Underlying().(*types.Basic)
	return ok && b.Info()&types.IsString != 0
}

// typeKey gives a short stable name for a Go type used in heap keys.
func typeKey(t types.Type) string {
	s := types.TypeString(t, func(p *types.Package) string { return p.Name() })
	return s
}

func sortedKeys[V any](m map[string]V) []string {
	ks := make([]string, 0, len(m))
	for k := range m {
		ks = append(ks, k)
	}
	sort.Strings(ks)
	return ks
}
