package main

import (
	"fmt"
	"go/ast"
	"go/types"
)

type deferRec struct {
	call *ast.CallExpr
	cond *Term // nil: registered on every path that reaches here; otherwise the condition under which it was registered
}

type State struct {
	vars   map[types.Object]Value
	heap   map[string]Value
	pc     Term
	dead   bool
	defers [][]*deferRec // one list per active frame
	locks  map[string]map[string]Value // lock class -> owned heap snapshot at Lock
	local  map[string]bool             // ref terms allocated in this function (not yet published)
}

func newState() *State {
	return &State{vars: map[types.Object]Value{}, heap: map[string]Value{}, pc: tTrue,
		locks: map[string]map[string]Value{}, local: map[string]bool{}}
}

func (s *State) clone() *State {
	n := &State{vars: make(map[types.Object]Value, len(s.vars)), heap: make(map[string]Value, len(s.heap)), pc: s.pc, dead: s.dead,
		locks: make(map[string]map[string]Value, len(s.locks)), local: make(map[string]bool, len(s.local))}
	for k, v := range s.vars {
		n.vars[k] = v
	}
	for k, v := range s.heap {
		n.heap[k] = v
	}
	for k, v := range s.locks {
		n.locks[k] = v
	}
	for k, v := range s.local {
		n.local[k] = v
	}
	n.defers = make([][]*deferRec, len(s.defers))
	for i, d := range s.defers {
		n.defers[i] = append([]*deferRec(nil), d...)
	}
	return n
}

func (s *State) set(o *State) {
	*s = *o
}

// heap access with lazily created base values shared by all states
func (x *Exec) getHeap(st *State, key string) Value {
	if v, ok := st.heap[key]; ok {
		return v
	}
	if v, ok := x.heapBase[key]; ok {
		return v
	}
	mk, ok := x.heapMakers[key]
	if !ok {
		panic("getHeap: unknown heap key " + key)
	}
	// base values must be declared outside any truncation window
	v := mk()
	x.heapBase[key] = v
	return v
}

func (x *Exec) setHeap(st *State, key string, v Value) {
	st.heap[key] = v
}

// registerHeap records how to make the base value for a key.
func (x *Exec) registerHeap(key string, mk func() Value) {
	if _, ok := x.heapMakers[key]; !ok {
		x.heapMakers[key] = mk
	}
}

func (x *Exec) addPC(st *State, c Term) {
	st.pc = x.vc.name("pc", tAnd(st.pc, c))
}

// merge joins live states; values that differ become ite-chains on the path conditions.
func (x *Exec) merge(states ...*State) *State {
	var live []*State
	for _, s := range states {
		if s != nil && !s.dead && s.pc.S != "false" { // a state behind a constant-false condition is unreachable
			live = append(live, s)
		}
	}
	if len(live) == 0 {
		d := newState()
		d.dead = true
		d.pc = tFalse
		if len(states) > 0 && states[0] != nil {
			d.defers = states[0].defers
		}
		return d
	}
	if len(live) == 1 {
		return live[0]
	}
	n := newState()
	var pcs []Term
	for _, s := range live {
		pcs = append(pcs, s.pc)
	}
	n.pc = x.vc.name("pc", tOr(pcs...))
	// vars present in all
	for k, v0 := range live[0].vars {
		all := true
		same := true
		for _, s := range live[1:] {
			v, ok := s.vars[k]
			if !ok {
				all = false
				break
			}
			if !vSame(v0, v) {
				same = false
			}
		}
		if !all {
			continue
		}
		if same {
			n.vars[k] = v0
			continue
		}
		acc := live[len(live)-1].vars[k]
		for i := len(live) - 2; i >= 0; i-- {
			acc = x.iteV(live[i].pc, live[i].vars[k], acc, k.Name())
		}
		n.vars[k] = x.vc.nameV(k.Name(), acc)
	}
	keys := map[string]bool{}
	for _, s := range live {
		for k := range s.heap {
			keys[k] = true
		}
	}
	for k := range keys {
		v0 := x.getHeap(live[0], k)
		same := true
		for _, s := range live[1:] {
			if !vSame(v0, x.getHeap(s, k)) {
				same = false
				break
			}
		}
		if same {
			n.heap[k] = v0
			continue
		}
		acc := x.getHeap(live[len(live)-1], k)
		for i := len(live) - 2; i >= 0; i-- {
			acc = x.iteV(live[i].pc, x.getHeap(live[i], k), acc, k)
		}
		n.heap[k] = x.vc.nameV(k, acc)
	}
	// deferred calls: the common prefix stays as it is; a call registered on some of the joined paths only
	// (a defer inside an if or a loop body) is kept with the condition of the path that registered it
	for _, s := range live[1:] {
		if len(s.defers) != len(live[0].defers) {
			panic("merge: defer stacks differ in depth")
		}
	}
	n.defers = make([][]*deferRec, len(live[0].defers))
	for fi := range live[0].defers {
		same := true
		for _, s := range live[1:] {
			if len(s.defers[fi]) != len(live[0].defers[fi]) {
				same = false
				break
			}
			for j := range s.defers[fi] {
				if s.defers[fi][j] != live[0].defers[fi][j] {
					same = false
				}
			}
		}
		if same {
			n.defers[fi] = live[0].defers[fi]
			continue
		}
		// longest common prefix
		k := 0
		for {
			ok := true
			for _, s := range live {
				if k >= len(s.defers[fi]) || s.defers[fi][k] != live[0].defers[fi][k] {
					ok = false
					break
				}
			}
			if !ok {
				break
			}
			k++
		}
		out := append([]*deferRec(nil), live[0].defers[fi][:k]...)
		for _, s := range live {
			for _, d := range s.defers[fi][k:] {
				c := s.pc
				if d.cond != nil {
					c = tAnd(*d.cond, s.pc)
				}
				c = x.vc.name("defercond", c)
				out = append(out, &deferRec{call: d.call, cond: &c})
			}
		}
		n.defers[fi] = out
	}
	for k, v := range live[0].locks {
		n.locks[k] = v
	}
	for _, s := range live {
		for k := range s.local {
			n.local[k] = true
		}
	}
	// a ref is local only if local in all states
	for k := range n.local {
		for _, s := range live {
			if !s.local[k] {
				delete(n.local, k)
				break
			}
		}
	}
	return n
}

func (x *Exec) iteV(c Term, a, b Value, hint string) Value {
	switch av := a.(type) {
	case Term, *StructV:
		return vIte(c, a, b)
	default:
		if vSame(a, b) {
			return a
		}
		if _, isFn := a.(FuncV); isFn {
			if _, isFn2 := b.(FuncV); isFn2 {
				// a variable holding one of two different functions (stat := os.Lstat; if .. { stat = os.Stat }): an opaque
				// function value; a call through it is a call of an unknown function (results unconstrained)
				return x.vc.fresh("funcval", sortInt)
			}
		}
		_ = av
		panic(fmt.Sprintf("cannot merge non-symbolic values for %s (%T vs %T)", hint, a, b))
	}
}
