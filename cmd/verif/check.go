package main

import (
	"encoding/json"
	"os/exec"
	"flag"
	"fmt"
	"os"
	"path/filepath"
	"regexp"
	"sort"
	"strconv"
	"strings"
	"sync"
	"time"
)

// which builds carry functions for a property
var propGOOS = map[string][]string{
	"C15": {"linux", "freebsd", "windows", "solaris"},
	"C17": {"freebsd"},
	"C18": {"freebsd"},
}

type KnownFinding struct {
	State      string `json:"state"` // known | fixed
	Property   string `json:"property"`
	Obligation string `json:"obligation"` // substring of the obligation name
	Commit     string `json:"commit,omitempty"`
	What       string `json:"what"`
	Scenario   string `json:"scenario,omitempty"`
	ID         string `json:"id,omitempty"`
}

func loadKnown() []KnownFinding {
	var kf []KnownFinding
	b, err := os.ReadFile(filepath.Join(verifRoot(), "known_findings.json"))
	if err != nil {
		return nil
	}
	if err := json.Unmarshal(b, &kf); err != nil {
		fmt.Fprintln(os.Stderr, "known_findings.json:", err)
		os.Exit(2)
	}
	return kf
}

type oblEvidence struct {
	Name   string   `json:"name"`
	Kind   string   `json:"kind"`
	Tags   []string `json:"tags"`
	Result string   `json:"result"`
	Solver string   `json:"solver"`
	Ms     int64    `json:"ms"`
	Where  string   `json:"where"`
	Cases  int      `json:"cases,omitempty"`
	GOOS   string   `json:"goos"`
}

type funcUnder struct {
	prog *Program
	fi   *FuncInfo
	fc   *FuncContract
	goos string
}

func hasTag(tags []string, p string) bool {
	for _, t := range tags {
		if t == p {
			return true
		}
	}
	return false
}

func contractTags(fc *FuncContract) map[string]bool {
	m := map[string]bool{}
	add := func(cs []*Clause) {
		for _, c := range cs {
			for _, t := range c.Tags {
				m[t] = true
			}
		}
	}
	add(fc.Requires)
	add(fc.Ensures)
	for _, l := range fc.Loops {
		add(l.Invs)
		add(l.Exits)
		if l.Decreases != nil {
			add([]*Clause{l.Decreases})
		}
	}
	for _, ca := range fc.CallAsserts {
		add([]*Clause{ca.Clause})
	}
	for _, ca := range fc.CallbackInvs {
		add([]*Clause{ca.Clause})
	}
	add(fc.AtReturn)
	if s := fc.Opts["serves"]; s != "" {
		for _, t := range strings.FieldsFunc(s, func(r rune) bool { return r == ',' || r == ' ' }) {
			m[t] = true
		}
	}
	return m
}

func cmdCheck(args []string) {
	if len(args) < 1 {
		usage()
	}
	prop := args[0]
	fs := flag.NewFlagSet("check", flag.ExitOnError)
	tier := fs.String("tier", "", "quick|thorough")
	fs.Parse(args[1:])
	if *tier == "" {
		*tier = os.Getenv("VERIF_TIER")
	}
	if *tier == "" {
		*tier = "quick"
	}
	seed := 0
	if s := os.Getenv("VERIF_SEED"); s != "" {
		seed, _ = strconv.Atoi(s)
	}
	os.Exit(runCheck(prop, *tier, seed))
}

type checkReport struct {
	violations []string
	known      []string
	undecided  []string
}

func runCheck(prop, tier string, seed int) int {
	retried := 0
	t0 := time.Now()
	timeout := 10
	if tier == "thorough" {
		timeout = 60
	}
	gooses := propGOOS[prop]
	if gooses == nil {
		gooses = []string{"linux"}
	}
	evDir := filepath.Join(verifRoot(), "evidence")
	if d := os.Getenv("VERIF_EVIDENCE_DIR"); d != "" {
		evDir = d // selftest runs on scratch copies must not overwrite the real evidence
	}
	os.MkdirAll(evDir, 0o755)
	evPath := filepath.Join(evDir, prop+".json")
	os.Remove(evPath)
	replayDir := filepath.Join(evDir, "replay", prop)
	os.RemoveAll(replayDir)

	var rep checkReport
	var funcs []funcUnder
	trusted := []string{}
	assumptions := []string{}
	progs := make([]*Program, len(gooses))
	errs := make([]error, len(gooses))
	var wg sync.WaitGroup
	for i, g := range gooses {
		wg.Add(1)
		go func(i int, g string) {
			defer wg.Done()
			progs[i], errs[i] = loadProgram(repoDir(), g, patternsFor(g))
		}(i, g)
	}
	wg.Wait()
	for i, g := range gooses {
		if errs[i] != nil {
			rep.undecided = append(rep.undecided, fmt.Sprintf("cannot load /repo for GOOS=%s: %v", g, errs[i]))
			continue
		}
		prog := progs[i]
		for _, k := range sortedKeys(prog.Contracts.Funcs) {
			fc := prog.Contracts.Funcs[k]
			if fc.Trusted {
				continue
			}
			if fc.Opts["assumed"] != "" {
				continue // contract assumed here (checked by other means, see evidence)
			}
			// every function under contract is generated: an obligation serves the property if it carries its tag,
			// wherever it arises (e.g. a tagged precondition of a callee at a call site in an otherwise unrelated function)
			fi := prog.Funcs[k]
			if fi == nil {
				if contractTags(fc)[prop] {
					rep.undecided = append(rep.undecided, fmt.Sprintf("contract for %s (%s:%d) has no function in /repo (GOOS=%s)", k, filepath.Base(fc.File), fc.Line, g))
				}
				continue
			}
			funcs = append(funcs, funcUnder{prog, fi, fc, g})
		}
	}
	// generate
	type fres struct {
		fu  funcUnder
		res []*VerifyResult
	}
	results := make([]fres, len(funcs))
	sem := make(chan struct{}, 8)
	for i, fu := range funcs {
		wg.Add(1)
		sem <- struct{}{}
		go func(i int, fu funcUnder) {
			defer wg.Done()
			defer func() { <-sem }()
			results[i] = fres{fu, verifyAllModes(fu.prog, fu.fi, fu.fc)}
		}(i, fu)
	}
	wg.Wait()
	var all []*Obligation
	oblGOOS := map[*Obligation]string{}
	var vacuity []*Obligation
	abstractions := map[string]bool{}
	var funcNames []string
	serving := map[string]bool{}
	for _, fr := range results {
		name := fr.fu.fi.Key
		if len(gooses) > 1 {
			name += " (" + fr.fu.goos + ")"
		}
		for _, r := range fr.res {
			if r.Err != "" {
				if contractTags(fr.fu.fc)[prop] {
					rep.undecided = append(rep.undecided, fmt.Sprintf("%s%s: %s", r.Func, modeSuffix(r.Mode), firstLines(r.Err, 2)))
				}
				// the obligations generated before the engine gave up stand on their own (each is a statement about the
				// execution up to its program point): they are still decided, so that a violation in the part that was
				// reached is reported as one; the function as a whole stays undecided
				for _, o := range r.Obligations {
					if o.Kind != "vacuity" && hasTag(o.Tags, prop) {
						all = append(all, o)
						oblGOOS[o] = fr.fu.goos
					}
				}
				continue
			}
			n := 0
			for _, o := range r.Obligations {
				if o.Kind == "vacuity" {
					vacuity = append(vacuity, o)
					oblGOOS[o] = fr.fu.goos
					continue
				}
				if hasTag(o.Tags, prop) {
					all = append(all, o)
					oblGOOS[o] = fr.fu.goos
					n++
				}
			}
			restricted := false
			for _, m := range fr.fu.fc.Modes {
				if m.Name == r.Mode && m.Assume != nil && len(m.Assume.Tags) > 0 && !hasTag(m.Assume.Tags, prop) {
					restricted = true
				}
			}
			if n == 0 && contractTags(fr.fu.fc)[prop] && !restricted {
				rep.undecided = append(rep.undecided, fmt.Sprintf("%s%s generated no obligation for %s", r.Func, modeSuffix(r.Mode), prop))
			}
			if n > 0 {
				serving[name] = true
			}
			for _, a := range r.Abstractions {
				abstractions[a] = true
			}
		}
	}
	for i, g := range gooses {
		if progs[i] == nil {
			continue
		}
		n := 0
		for _, l := range progs[i].Contracts.Lemmas {
			if hasTag(l.Tags, prop) {
				n++
			}
		}
		if n == 0 {
			continue
		}
		r := verifyLemmas(progs[i], prop)
		if r.Err != "" {
			rep.undecided = append(rep.undecided, "lemmas ("+g+"): "+firstLines(r.Err, 2))
		}
		for _, o := range r.Obligations {
			all = append(all, o)
			oblGOOS[o] = g
		}
		funcNames = append(funcNames, fmt.Sprintf("%d lemma(s) over the specification functions (%s)", n, g))
	}
	for i, g := range gooses {
		if progs[i] == nil {
			continue
		}
		for _, o := range structureObligations(progs[i], prop) {
			all = append(all, o)
			oblGOOS[o] = g
		}
	}
	for _, n := range sortedKeys(serving) {
		funcNames = append(funcNames, n)
	}
	sort.Strings(funcNames)
	if len(serving) == 0 {
		rep.undecided = append(rep.undecided, "no function under contract serves "+prop)
	}
	budgetMin := 8
	if tier == "thorough" {
		budgetMin = 45
	}
	if v, err := strconv.Atoi(os.Getenv("VERIF_BUDGET_MIN")); err == nil && v > 0 {
		budgetMin = v
	}
	dischargeDeadline = time.Now().Add(time.Duration(budgetMin) * time.Minute)
	if os.Getenv("VERIF_TRACE") != "" {
		fmt.Fprintf(os.Stderr, "trace: %s generation done, %d obligations, discharge starts (budget %d min)\n", time.Since(t0).Round(time.Second), len(all), budgetMin)
	}
	dischargeAll(all, timeout, seed, true)
	// An obligation the solvers gave up on (timeout / unknown — never a model) gets one more, longer and less
	// contended attempt before it is reported: on a loaded machine a 100 ms proof can miss a 10 s budget.
	// Obligations of recorded findings are expected to stay open and are not retried.
	{
		kn := loadKnown()
		var again []*Obligation
		for _, o := range all {
			if o.Result != "timeout" && o.Result != "unknown" {
				continue
			}
			if o.SplitBits > 0 {
				continue // a case-split obligation has already had hundreds of solver runs
			}
			isKnown := false
			for i := range kn {
				if kn[i].State == "known" && kn[i].Property == prop && kn[i].Obligation != "" && strings.Contains(o.Name, kn[i].Obligation) {
					isKnown = true
				}
			}
			if !isKnown {
				again = append(again, o)
			}
		}
		if len(again) > 0 && len(again) <= 40 {
			retried = len(again)
			longer := timeout * 4
			if longer > 90 {
				longer = 90
			}
			for _, o := range again {
				discharge(o, longer, seed, true)
			}
		}
	}
	// vacuity: `false` must not be provable at function exit
	dischargeAll(vacuity, 5, seed, false)
	for _, o := range vacuousCovers(vacuity) {
		rep.undecided = append(rep.undecided, "vacuous contract: `false` is provable at "+o.Name)
	}
	// trusted base
	tset := map[string]bool{}
	for _, p := range progs {
		if p == nil {
			continue
		}
		for k, fc := range p.Contracts.Funcs {
			if fc.Trusted {
				tset[k] = true
			}
		}
	}
	for k := range tset {
		trusted = append(trusted, "assumed contract of external "+k+" (spec/trusted.spec)")
	}
	sort.Strings(trusted)
	trusted = append(trusted, "SMT solvers z3 4.8.12, z3 5.1.0, cvc5 1.0.3; go/types and go/packages (x/tools v0.29.0); the VC generator /verif/cmd/verif itself")
	for a := range abstractions {
		assumptions = append(assumptions, "abstraction: "+a)
	}
	for _, p := range progs {
		if p == nil {
			continue
		}
		for k, fc := range p.Contracts.Funcs {
			if fc.Opts["assumed"] != "" && contractTags(fc)[prop] || (fc.Opts["assumed"] != "" && prop == "C20") {
				assumptions = append(assumptions, "contract of "+k+" is ASSUMED in the proofs (function outside the verified subset) and checked by the "+fc.Opts["assumed"]+" companion")
			}
		}
	}
	sort.Strings(assumptions)
	assumptions = append(assumptions, metaAssumptions(prop)...)

	known := loadKnown()
	knownSeen := map[string]bool{}
	knownObls := 0
	discharged := 0
	var evs []oblEvidence
	solverMs := int64(0)
	overBudget := 0
	bySolver := map[string]int{}
	for _, o := range all {
		evs = append(evs, oblEvidence{Name: o.Name, Kind: o.Kind, Tags: o.Tags, Result: o.Result, Solver: o.Solver, Ms: o.Ms,
			Where: fmt.Sprintf("%s:%d", filepath.Base(o.Pos.Filename), o.Pos.Line), Cases: o.Cases, GOOS: oblGOOS[o]})
		solverMs += o.Ms
		if o.Result == "unsat" {
			discharged++
			bySolver[o.Solver]++
			continue
		}
		if o.Solver == "budget" {
			overBudget++
			continue // not attempted (or not finished) within the tier's time budget: undecided, reported once below
		}
		// undischarged
		var kf *KnownFinding
		for i := range known {
			if known[i].State == "known" && known[i].Property == prop && known[i].Obligation != "" && strings.Contains(o.Name, known[i].Obligation) {
				kf = &known[i]
				break
			}
		}
		if kf != nil {
			line := fmt.Sprintf("KNOWN-FINDING: property=%s %s [obligation %s: %s]", prop, kf.What, o.Name, o.Result)
			if kf.Scenario != "" {
				if pass, out := runScenario(kf.Scenario); !pass {
					line += fmt.Sprintf(" [reproduced on the real code by scenario %s: %s]", kf.Scenario, scenarioWhy(out))
				} else {
					line += " [scenario " + kf.Scenario + " does not reproduce it on this tree]"
				}
			}
			rep.known = append(rep.known, line)
			knownSeen[kf.ID] = true
			knownObls++
			continue
		}
		if o.Stale != "" {
			rep.undecided = append(rep.undecided, fmt.Sprintf("%s is no longer established, and its loop contract is out of date (%s): rewrite the invariant for the new loop", o.Name, o.Stale))
			continue
		}
		path, reproduced := writeReplay(replayDir, prop, o, oblGOOS[o], timeout)
		if _, u := lastReplayUninterpreted.Load(o); u {
			// the solver's counterexample was run on the real function: on the real output the clause holds or fails
			// depending only on what an uninterpreted library function returns, so this refutation decides nothing
			// (the bounded companion of the property, which executes the real formatting, is what decides)
			rep.undecided = append(rep.undecided, fmt.Sprintf("%s: refuted only through an uninterpreted library function: the counterexample was run on the real function and the clause, evaluated concretely on the real output, holds; see %s", o.Name, path))
			continue
		}
		line := fmt.Sprintf("VIOLATION property=%s replay=%s", prop, path)
		if !reproduced {
			line += " no-failing-input-found"
		}
		rep.violations = append(rep.violations, line)
		fmt.Printf("failed obligation: %s  (%s by %s) at %s:%d\n", o.Name, o.Result, o.Solver, filepath.Base(o.Pos.Filename), o.Pos.Line)
	}
	sort.Slice(evs, func(i, j int) bool { return evs[i].Name < evs[j].Name })
	// scenario replays on the real code (real kernel): recorded findings must still be the recorded ones,
	// repaired defects must stay repaired
	scenarioRuns := []map[string]interface{}{}
	// regression scenarios of the property (spec/meta.json): parts of the code that are not under contract
	for _, sc := range metaScenarios(prop) {
		pass, out := runScenario(sc)
		scenarioRuns = append(scenarioRuns, map[string]interface{}{"scenario": sc, "state": "regression", "passes": pass})
		if !pass {
			os.MkdirAll(replayDir, 0o755)
			path := filepath.Join(replayDir, sc+".replay.json")
			b, _ := json.MarshalIndent(map[string]interface{}{"property": prop, "obligation": "scenario " + sc, "reproduced_on_real_code": true, "cmd": scenarioCmd(sc), "output": out}, "", " ")
			os.WriteFile(path, b, 0o644)
			rep.violations = append(rep.violations, fmt.Sprintf("VIOLATION property=%s replay=%s", prop, path))
			fmt.Printf("scenario %s fails on the real code: %s\n", sc, scenarioWhy(out))
		}
	}
	for i := range known {
		kf := &known[i]
		if kf.Property != prop || kf.Scenario == "" {
			continue
		}
		if kf.State == "known" && knownSeen[kf.ID] {
			continue
		}
		pass, out := runScenario(kf.Scenario)
		scenarioRuns = append(scenarioRuns, map[string]interface{}{"scenario": kf.Scenario, "finding": kf.ID, "state": kf.State, "passes": pass})
		switch {
		case kf.State == "known" && !pass:
			rep.known = append(rep.known, fmt.Sprintf("KNOWN-FINDING: property=%s %s [reproduced on the real code by scenario %s: %s]", prop, kf.What, kf.Scenario, scenarioWhy(out)))
			knownSeen[kf.ID] = true
		case kf.State == "fixed" && !pass:
			os.MkdirAll(replayDir, 0o755)
			path := filepath.Join(replayDir, kf.Scenario+".replay.json")
			b, _ := json.MarshalIndent(map[string]interface{}{"property": prop, "obligation": "scenario " + kf.Scenario + " (" + kf.What + ")",
				"reproduced_on_real_code": true, "cmd": scenarioCmd(kf.Scenario), "output": out}, "", " ")
			os.WriteFile(path, b, 0o644)
			rep.violations = append(rep.violations, fmt.Sprintf("VIOLATION property=%s replay=%s", prop, path))
			fmt.Printf("scenario %s fails on the real code: %s\n", kf.Scenario, scenarioWhy(out))
		}
	}

	// samples: a few obligations written out
	var samples []interface{}
	for i, o := range all {
		if i%(len(all)/3+1) == 0 && len(samples) < 4 && o.vc != nil {
			q := o.Query(false)
			goal := o.Goal.S
			if len(goal) > 400 {
				goal = goal[:400] + "…"
			}
			samples = append(samples, map[string]interface{}{"obligation": o.Name, "kind": o.Kind, "goal_smt": goal, "query_bytes": len(q), "result": o.Result, "solver": o.Solver})
		}
	}
	level := "proof"
		if overBudget > 0 {
		rep.undecided = append(rep.undecided, fmt.Sprintf("%d obligation(s) were not decided within the %s tier's solver time budget (the code under check makes the proofs much slower than on the pinned tree)", overBudget, tier))
	}
	cov := map[string]interface{}{
		"obligations":              len(all) - knownObls,
		"discharged":               discharged,
		"refuted_known_finding_obligations": knownObls,
		"obligations_retried_with_longer_timeout": retried,
		"checker_cmd":              fmt.Sprintf("bin/verif check %s --tier %s", prop, tier),
		"trusted_base":             trusted,
		"functions_under_contract": funcNames,
		"obligation_list":          evs,
		"discharged_by":            bySolver,
		"solver_ms_total":          solverMs,
		"samples":                  samples,
		"known_findings_seen":      rep.known,
		"scenario_replays":         scenarioRuns,
		"undecided":                rep.undecided,
		"vacuity_checks":           len(vacuity),
		"per_obligation_timeout_s": timeout,
	}
	if tier == "thorough" && os.Getenv("VERIF_NO_CANARIES") == "" {
		cov["canaries"] = runCanaries(prop, &rep)
	}
	if tier == "thorough" {
		if rp := regressPack(prop, &rep); rp != nil {
			cov["regression_pack"] = rp
		}
	}
	if tier == "thorough" {
		// stability: every obligation again with two more solver seeds; a changed verdict is reported
		var unstable []string
		for _, sd := range []int{seed + 1, seed + 2} {
			first := map[*Obligation]string{}
			for _, o := range all {
				first[o] = o.Result
			}
			var again []*Obligation
			for _, o := range all {
				if !o.Trivial && o.vc != nil && o.SplitBits == 0 {
					again = append(again, o)
				}
			}
			dischargeAll(again, timeout, sd, false)
			for _, o := range again {
				if o.Result != first[o] {
					unstable = append(unstable, fmt.Sprintf("%s: %s with seed %d, %s with seed %d", o.Name, first[o], seed, o.Result, sd))
					if first[o] == "unsat" {
						o.Result = "unsat" // discharged once is discharged; the instability is reported as proof debt
					}
				}
			}
		}
		cov["seeds_tried"] = 3
		cov["unstable_obligations"] = unstable
	}
	if extra := propExtra(prop, tier, seed, &rep); extra != nil {
		for k, v := range extra {
			cov[k] = v
		}
	}
	ev := map[string]interface{}{
		"property_id": prop, "tier": tier, "seed": seed, "level": level, "coverage": cov,
		"assumptions": assumptions, "wall_s": time.Since(t0).Seconds(), "violations": len(rep.violations),
	}
	b, _ := json.MarshalIndent(ev, "", " ")
	os.WriteFile(evPath, b, 0o644)

	for _, k := range rep.known {
		fmt.Println(k)
	}
	for _, u := range rep.undecided {
		fmt.Println("UNDECIDED:", u)
	}
	for _, v := range rep.violations {
		fmt.Println(v)
	}
	fmt.Printf("%s %s: %d functions under contract, %d obligations, %d discharged, %d known findings, %d violations, %d undecided, %.1fs\n",
		prop, tier, len(serving), len(all), discharged, len(rep.known), len(rep.violations), len(rep.undecided), time.Since(t0).Seconds())
	if len(rep.violations) > 0 {
		return 1
	}
	if len(rep.undecided) > 0 {
		return 2
	}
	return 0
}

func modeSuffix(m string) string {
	if m == "" {
		return ""
	}
	return "{" + m + "}"
}

// metaAssumptions reads the per-property assumption texts from spec/meta.json.
func metaAssumptions(prop string) []string {
	b, err := os.ReadFile(filepath.Join(verifRoot(), "spec", "meta.json"))
	if err != nil {
		return nil
	}
	var m map[string]json.RawMessage
	if json.Unmarshal(b, &m) != nil {
		return nil
	}
	var out []string
	var e struct {
		Assumptions []string `json:"assumptions"`
	}
	if raw, ok := m[prop]; ok && json.Unmarshal(raw, &e) == nil {
		out = append(out, e.Assumptions...)
	}
	var common string
	if raw, ok := m["common_note"]; ok && json.Unmarshal(raw, &common) == nil {
		out = append(out, common)
	}
	out = append(out, "machine integers are modelled exactly as bit-vectors (no mathematical-integer abstraction) in the functions of this property")
	return out
}

// propExtra runs the labelled bounded companion of a property, if it has one.
func propExtra(prop, tier string, seed int, rep *checkReport) map[string]interface{} {
	if prop == "C20" {
		return boundedC20(tier, seed, rep)
	}
	if prop == "C16" {
		return boundedC16(rep)
	}
	if prop == "C11" {
		return boundedOverlay(rep, "C11", "c11", "verif_c11_bounded_test.go", "TestVerifBoundedC11", "C11BOUNDED ",
			"BOUNDED (not counted as proved): the real newEvent driven with families of move records (gaps 0..12, cookies congruent modulo 1/7/10/16/256, every interleaving of two and three moves) and seeded random histories",
			"newEvent: the old name attached to a Create (rename correlation), judged by an oracle that does not depend on how the cookies are stored")
	}
	return nil
}

// boundedOverlay runs a labelled bounded companion: an in-package test kept under /verif/bounded/<dir>, injected into
// the tree under check with `go test -overlay`, printing one summary line `<marker>{json with "failures"}`.
func boundedOverlay(rep *checkReport, prop, dirName, fileName, testName, marker, label, covers string) map[string]interface{} {
	dir, err := os.MkdirTemp("", "bounded.")
	if err != nil {
		rep.undecided = append(rep.undecided, "bounded "+prop+": "+err.Error())
		return nil
	}
	defer os.RemoveAll(dir)
	ov := filepath.Join(dir, "ov.json")
	b, _ := json.Marshal(map[string]interface{}{"Replace": map[string]string{
		filepath.Join(repoDir(), fileName): filepath.Join(verifRoot(), "bounded", dirName, fileName+".txt")}})
	os.WriteFile(ov, b, 0o644)
	cmd := exec.Command("go", "test", "-overlay", ov, "-vet=off", "-count=1", "-v", "-timeout", "300s", "-run", "^"+testName+"$", ".")
	cmd.Dir = repoDir()
	cmd.Env = append(os.Environ(), "GOFLAGS=-mod=mod", "GOPROXY=off", "GOSUMDB=off", "GOTOOLCHAIN=local")
	out, _ := cmd.CombinedOutput()
	var sum map[string]interface{}
	for _, ln := range strings.Split(string(out), "\n") {
		if i := strings.Index(ln, marker); i >= 0 {
			json.Unmarshal([]byte(ln[i+len(marker):]), &sum)
		}
	}
	if sum == nil {
		rep.undecided = append(rep.undecided, "bounded "+prop+" companion did not run: "+firstLines(string(out), 6))
		return nil
	}
	res := map[string]interface{}{"bounded": map[string]interface{}{"label": label, "covers": covers, "summary": sum}}
	if fs, ok := sum["failures"].([]interface{}); ok && len(fs) > 0 {
		evDir := filepath.Join(verifRoot(), "evidence")
		if d := os.Getenv("VERIF_EVIDENCE_DIR"); d != "" {
			evDir = d
		}
		rdir := filepath.Join(evDir, "replay", prop)
		os.MkdirAll(rdir, 0o755)
		for i, f := range fs {
			path := filepath.Join(rdir, fmt.Sprintf("bounded_%d.replay.json", i))
			b, _ := json.MarshalIndent(map[string]interface{}{"property": prop, "obligation": "bounded/" + prop + " companion", "failing_input": f,
				"reproduced_on_real_code": true, "how": "go test -overlay (bounded/" + dirName + "/" + fileName + ".txt injected into the package of the tree under check) -run " + testName}, "", " ")
			os.WriteFile(path, b, 0o644)
			rep.violations = append(rep.violations, fmt.Sprintf("VIOLATION property=%s replay=%s", prop, path))
			fmt.Printf("bounded %s failure: %v\n", prop, f)
		}
	}
	return res
}

// boundedC16: the real Op.Has / Event.Has / Op.String / Event.String run exhaustively over the low 16 bits of Op
// (plus sampled high bits, probe sets and names) against an oracle written from the documentation. A companion of
// the proof, labelled bounded: it also decides the property when a rewrite of these functions uses a construct the
// generator does not model (the proof is then UNDECIDED, this is not).
func boundedC16(rep *checkReport) map[string]interface{} {
	dir, err := os.MkdirTemp("", "c16bounded.")
	if err != nil {
		rep.undecided = append(rep.undecided, "bounded C16: "+err.Error())
		return nil
	}
	defer os.RemoveAll(dir)
	ov := filepath.Join(dir, "ov.json")
	b, _ := json.Marshal(map[string]interface{}{"Replace": map[string]string{
		filepath.Join(repoDir(), "verif_c16_bounded_test.go"): filepath.Join(verifRoot(), "bounded", "c16", "verif_c16_bounded_test.go.txt")}})
	os.WriteFile(ov, b, 0o644)
	cmd := exec.Command("go", "test", "-overlay", ov, "-vet=off", "-count=1", "-v", "-timeout", "300s", "-run", "^TestVerifBoundedC16$", ".")
	cmd.Dir = repoDir()
	cmd.Env = append(os.Environ(), "GOFLAGS=-mod=mod", "GOPROXY=off", "GOSUMDB=off", "GOTOOLCHAIN=local")
	out, _ := cmd.CombinedOutput()
	var sum map[string]interface{}
	for _, ln := range strings.Split(string(out), "\n") {
		if i := strings.Index(ln, "C16BOUNDED "); i >= 0 {
			json.Unmarshal([]byte(ln[i+len("C16BOUNDED "):]), &sum)
		}
	}
	if sum == nil {
		rep.undecided = append(rep.undecided, "bounded C16 companion did not run: "+firstLines(string(out), 6))
		return nil
	}
	res := map[string]interface{}{"bounded": map[string]interface{}{
		"label":   "BOUNDED (not counted as proved): the real functions executed exhaustively over the low 16 bits of Op, sampled high-bit patterns, 39 probe sets for Has and a table of event names",
		"covers":  "Op.Has, Event.Has, Op.String (text and injectivity on the defined operations), Event.String",
		"summary": sum,
	}}
	if fs, ok := sum["failures"].([]interface{}); ok && len(fs) > 0 {
		evDir := filepath.Join(verifRoot(), "evidence")
		if d := os.Getenv("VERIF_EVIDENCE_DIR"); d != "" {
			evDir = d
		}
		rdir := filepath.Join(evDir, "replay", "C16")
		os.MkdirAll(rdir, 0o755)
		for i, f := range fs {
			path := filepath.Join(rdir, fmt.Sprintf("bounded_%d.replay.json", i))
			b, _ := json.MarshalIndent(map[string]interface{}{"property": "C16", "obligation": "bounded/C16 companion", "failing_input": f,
				"reproduced_on_real_code": true, "how": "go test -overlay (bounded/c16/verif_c16_bounded_test.go.txt injected into /repo's package) -run TestVerifBoundedC16"}, "", " ")
			os.WriteFile(path, b, 0o644)
			rep.violations = append(rep.violations, fmt.Sprintf("VIOLATION property=C16 replay=%s", path))
			fmt.Printf("bounded C16 failure: %v\n", f)
		}
	}
	return res
}

// boundedC20: exhaustive small-scope check of the parts of diff.go outside the verified subset
// (findLongestMatch, matchingBlocks, makeUnifiedDiff, Diff, DiffMatch) on a copy of the real file.
func boundedC20(tier string, seed int, rep *checkReport) map[string]interface{} {
	dir, err := os.MkdirTemp("", "c20bounded.")
	if err != nil {
		rep.undecided = append(rep.undecided, "bounded C20: "+err.Error())
		return nil
	}
	defer os.RemoveAll(dir)
	src, err := os.ReadFile(filepath.Join(repoDir(), "internal", "ztest", "diff.go"))
	if err != nil {
		rep.undecided = append(rep.undecided, "bounded C20: "+err.Error())
		return nil
	}
	h, err := os.ReadFile(filepath.Join(verifRoot(), "bounded", "c20", "harness_test.go.txt"))
	if err != nil {
		rep.undecided = append(rep.undecided, "bounded C20: "+err.Error())
		return nil
	}
	os.WriteFile(filepath.Join(dir, "diff.go"), src, 0o644)
	os.WriteFile(filepath.Join(dir, "harness_test.go"), h, 0o644)
	os.WriteFile(filepath.Join(dir, "go.mod"), []byte("module ztestcopy\n\ngo 1.17\n"), 0o644)
	maxLen, nRandom := "4", "300"
	if tier == "thorough" {
		maxLen, nRandom = "5", "3000"
	}
	cmd := exec.Command("go", "test", "-count=1", "-v", "-run", "TestBounded", "-timeout", "900s", ".")
	cmd.Dir = dir
	cmd.Env = append(os.Environ(), "GOFLAGS=-mod=mod", "GOPROXY=off", "GOSUMDB=off", "GOTOOLCHAIN=local", "C20_MAXLEN="+maxLen, "C20_RANDOM="+nRandom, fmt.Sprintf("VERIF_SEED=%d", seed))
	out, _ := cmd.CombinedOutput()
	var sum map[string]interface{}
	for _, ln := range strings.Split(string(out), "\n") {
		if strings.HasPrefix(ln, "C20BOUNDED ") {
			json.Unmarshal([]byte(ln[len("C20BOUNDED "):]), &sum)
		}
	}
	if sum == nil {
		rep.undecided = append(rep.undecided, "bounded C20 harness did not run: "+firstLines(string(out), 6))
		return nil
	}
	res := map[string]interface{}{"bounded": map[string]interface{}{
		"label":   "BOUNDED (not counted as proved): exhaustive over all pairs of line sequences over a 3-letter alphabet up to the stated length, plus seeded random long pairs and a DiffMatch table",
		"covers":  "findLongestMatch/matchingBlocks (the contract GetOpCodes assumes), GetGroupedOpCodes, makeUnifiedDiff, Diff end to end (empty iff equal after trimming; hunks apply; headers agree with bodies; at most 3 context lines), DiffMatch placeholders",
		"summary": sum,
	}}
	if fs, ok := sum["failures"].([]interface{}); ok && len(fs) > 0 {
		evDir := filepath.Join(verifRoot(), "evidence")
		if d := os.Getenv("VERIF_EVIDENCE_DIR"); d != "" {
			evDir = d
		}
		rdir := filepath.Join(evDir, "replay", "C20")
		os.MkdirAll(rdir, 0o755)
		for i, f := range fs {
			path := filepath.Join(rdir, fmt.Sprintf("bounded_%d.replay.json", i))
			b, _ := json.MarshalIndent(map[string]interface{}{"property": "C20", "obligation": "bounded/C20 harness", "failing_input": f,
				"reproduced_on_real_code": true, "how": "go test -run TestBounded on a copy of /repo/internal/ztest/diff.go with bounded/c20/harness_test.go.txt"}, "", " ")
			os.WriteFile(path, b, 0o644)
			rep.violations = append(rep.violations, fmt.Sprintf("VIOLATION property=C20 replay=%s", path))
			fmt.Printf("bounded C20 failure: %v\n", f)
		}
	}
	return res
}

var nonFile = regexp.MustCompile(`[^A-Za-z0-9_.-]+`)

// writeReplay records a failed obligation: name, solver outputs, model, query.
// Returns the path and whether the counterexample was reproduced on the real code.
func writeReplay(dir, prop string, o *Obligation, goos string, timeout int) (string, bool) {
	os.MkdirAll(dir, 0o755)
	base := nonFile.ReplaceAllString(o.Name, "_")
	if len(base) > 120 {
		base = base[:120]
	}
	path := filepath.Join(dir, base+".replay.json")
	qpath := filepath.Join(dir, base+".smt2")
	if o.vc != nil {
		os.WriteFile(qpath, []byte(o.Query(true)), 0o644)
	}
	rp := map[string]interface{}{
		"property": prop, "obligation": o.Name, "kind": o.Kind, "label": o.Label, "function": o.Func, "mode": o.Mode, "goos": goos,
		"where": fmt.Sprintf("%s:%d", o.Pos.Filename, o.Pos.Line), "result": o.Result, "solver": o.Solver, "solver_outputs": o.Outputs,
		"query": qpath, "model": o.Model,
	}
	reproduced := false
	if o.Model != "" || o.Result == "sat" {
		if r := replayOnRealCode(o, goos, dir, base); r != nil {
			rp["real_code_replay"] = r
			if ok, _ := r["reproduced"].(bool); ok {
				reproduced = true
			}
		}
	}
	rp["reproduced_on_real_code"] = reproduced
	b, _ := json.MarshalIndent(rp, "", " ")
	os.WriteFile(path, b, 0o644)
	if r, ok := rp["real_code_replay"].(map[string]interface{}); ok && !reproduced {
		if u, _ := r["rests_on_uninterpreted"].(bool); u {
			lastReplayUninterpreted.Store(o, true)
		}
	}
	return path, reproduced
}

// obligations whose counterexample was run on the real function and whose clause, on the real output, is true or false
// depending only on what an uninterpreted library function (fmt.Sprintf ...) returns: the refutation is not evidence
var lastReplayUninterpreted sync.Map

func cmdReplay(args []string) {
	if len(args) < 1 {
		usage()
	}
	b, err := os.ReadFile(args[0])
	if err != nil {
		fmt.Fprintln(os.Stderr, err)
		os.Exit(2)
	}
	var rp map[string]interface{}
	json.Unmarshal(b, &rp)
	fmt.Printf("obligation: %v\nproperty: %v\nresult when recorded: %v (%v)\n", rp["obligation"], rp["property"], rp["result"], rp["solver"])
	// re-run the recorded query
	if q, ok := rp["query"].(string); ok {
		if qb, err := os.ReadFile(q); err == nil {
			so := runSolverText(string(qb), 30)
			fmt.Printf("re-running the recorded query: %s\n", firstLines(so, 1))
		}
	}
	if r, ok := rp["real_code_replay"].(map[string]interface{}); ok {
		if cmd, ok := r["cmd"].(string); ok {
			fmt.Println("real-code replay command:", cmd)
		}
		fmt.Println("real-code replay output when recorded:")
		fmt.Println(r["output"])
	}
	os.Exit(1)
}

func runSolverText(q string, timeout int) string {
	so := runSolver(bgCtx(), solvers[0], q, timeout, 0)
	return so.output
}


var scenarioCache sync.Map

func scenarioCmd(name string) string {
	return fmt.Sprintf("cd %s && go test -overlay <{\"Replace\":{\"%s/verif_scenarios_test.go\":\"%s/replay/scenarios/verif_scenarios_test.go\"}}> -vet=off -count=1 -timeout 120s -run '^%s$' .", repoDir(), repoDir(), verifRoot(), name)
}

// runScenario runs one scenario test of replay/scenarios against the real code (injected with -overlay; /repo is not written).
func runScenario(name string) (bool, string) {
	if v, ok := scenarioCache.Load(name); ok {
		r := v.([2]interface{})
		return r[0].(bool), r[1].(string)
	}
	if strings.HasPrefix(name, "kq:") {
		runKqScenarios()
		if v, ok := scenarioCache.Load(name); ok {
			r := v.([2]interface{})
			return r[0].(bool), r[1].(string)
		}
		return true, "kqueue scenario " + name + " did not run"
	}
	dir, err := os.MkdirTemp("", "scenario.")
	if err != nil {
		return true, err.Error()
	}
	defer os.RemoveAll(dir)
	ov := filepath.Join(dir, "ov.json")
	b, _ := json.Marshal(map[string]interface{}{"Replace": map[string]string{
		filepath.Join(repoDir(), "verif_scenarios_test.go"): filepath.Join(verifRoot(), "replay", "scenarios", "verif_scenarios_test.go")}})
	os.WriteFile(ov, b, 0o644)
	out, err, envFail := runGoTestEnv(func() *exec.Cmd {
		cmd := exec.Command("go", "test", "-overlay", ov, "-vet=off", "-count=1", "-timeout", "120s", "-run", "^"+name+"$", ".")
		cmd.Dir = repoDir()
		cmd.Env = append(os.Environ(), "GOFLAGS=-mod=mod", "GOPROXY=off", "GOSUMDB=off", "GOTOOLCHAIN=local")
		return cmd
	})
	if envFail {
		// the machine, not the tree: the user's inotify instances are used up by other processes. Not cached, not a verdict.
		return true, "scenario " + name + " could not run: the inotify instance limit of this user is exhausted by other processes"
	}
	pass := err == nil
	if pass && !strings.Contains(string(out), "ok") {
		pass = false
	}
	scenarioCache.Store(name, [2]interface{}{pass, string(out)})
	return pass, string(out)
}

func scenarioWhy(out string) string {
	for _, ln := range strings.Split(out, "\n") {
		if strings.Contains(ln, "_test.go:") {
			w := strings.TrimSpace(ln)
			if len(w) > 300 {
				w = w[:300] + "…"
			}
			return w
		}
	}
	return firstLines(out, 2)
}


// runCanaries: the must-fail edits of selftest/corpus.json for this property, each applied to a scratch copy
// of the tree under check; the check must report a violation on the expected obligation. A miss means the
// machinery lost detection power: reported as UNDECIDED (never as a violation of the property).
// regressPack (thorough tier): the demonstrations of the seeded changes recorded for this property
// (replay/regress/<prop>/*.txt: in-package tests on the real kernel, each passing on the unchanged tree) are injected
// one by one with `go test -overlay` and run against the tree under check. A demonstration that fails three times in a
// row is reported as a scenario failing on the real code; one that does not compile against the tree (it may use
// unexported names the tree no longer has) is skipped and counted.
func regressPack(prop string, rep *checkReport) map[string]interface{} {
	files, _ := filepath.Glob(filepath.Join(verifRoot(), "replay", "regress", prop, "*.txt"))
	if len(files) == 0 {
		return nil
	}
	sort.Strings(files)
	type outcome struct {
		file, status, out string
	}
	results := make([]outcome, len(files))
	var wg sync.WaitGroup
	sem := make(chan struct{}, 4)
	testRe := regexp.MustCompile(`(?m)^func (Test[A-Za-z0-9_]*)`)
	for i, f := range files {
		wg.Add(1)
		sem <- struct{}{}
		go func(i int, f string) {
			defer wg.Done()
			defer func() { <-sem }()
			src, err := os.ReadFile(f)
			if err != nil {
				results[i] = outcome{f, "skipped", err.Error()}
				return
			}
			var tests []string
			for _, m := range testRe.FindAllStringSubmatch(string(src), -1) {
				tests = append(tests, m[1])
			}
			pkg, dest := ".", repoDir()
			if regexp.MustCompile(`(?m)^package ztest`).Match(src) {
				pkg, dest = "./internal/ztest/", filepath.Join(repoDir(), "internal", "ztest")
			}
			dir, err := os.MkdirTemp("", "regress.")
			if err != nil {
				results[i] = outcome{f, "skipped", err.Error()}
				return
			}
			defer os.RemoveAll(dir)
			ov := filepath.Join(dir, "ov.json")
			b, _ := json.Marshal(map[string]interface{}{"Replace": map[string]string{
				filepath.Join(dest, "zz_regress_"+strings.TrimSuffix(filepath.Base(f), ".txt")): f}})
			os.WriteFile(ov, b, 0o644)
			last := ""
			for attempt := 0; attempt < 3; attempt++ {
				out, err, envFail := runGoTestEnv(func() *exec.Cmd {
					cmd := exec.Command("go", "test", "-overlay", ov, "-vet=off", "-count=1", "-timeout", "180s", "-run", "^("+strings.Join(tests, "|")+")$", pkg)
					cmd.Dir = repoDir()
					cmd.Env = append(os.Environ(), "GOFLAGS=-mod=mod", "GOPROXY=off", "GOSUMDB=off", "GOTOOLCHAIN=local")
					return cmd
				})
				last = out
				if err == nil {
					results[i] = outcome{f, "passed", ""}
					return
				}
				if envFail {
					results[i] = outcome{f, "skipped", "could not run: the inotify instance limit of this user is exhausted by other processes"}
					return
				}
				if strings.Contains(last, "[build failed]") || strings.Contains(last, "[setup failed]") {
					results[i] = outcome{f, "skipped", "does not compile against this tree: " + firstLines(last, 3)}
					return
				}
			}
			results[i] = outcome{f, "failed", last}
		}(i, f)
	}
	wg.Wait()
	passed, skipped := 0, 0
	var failed []string
	evDir := filepath.Join(verifRoot(), "evidence")
	if d := os.Getenv("VERIF_EVIDENCE_DIR"); d != "" {
		evDir = d
	}
	for _, r := range results {
		name := strings.TrimSuffix(filepath.Base(r.file), ".txt")
		switch r.status {
		case "passed":
			passed++
		case "skipped":
			skipped++
		case "failed":
			failed = append(failed, name)
			rdir := filepath.Join(evDir, "replay", prop)
			os.MkdirAll(rdir, 0o755)
			path := filepath.Join(rdir, "regress_"+nonFile.ReplaceAllString(name, "_")+".replay.json")
			b, _ := json.MarshalIndent(map[string]interface{}{"property": prop, "obligation": "regression scenario " + name, "reproduced_on_real_code": true,
				"how": "go test -overlay (replay/regress/" + prop + "/" + filepath.Base(r.file) + " injected into the package of the tree under check), failed three times in a row",
				"output": firstLines(r.out, 40)}, "", " ")
			os.WriteFile(path, b, 0o644)
			fmt.Printf("scenario regress:%s fails on the real code: %s\n", name, scenarioWhy(r.out))
			rep.violations = append(rep.violations, fmt.Sprintf("VIOLATION property=%s replay=%s", prop, path))
		}
	}
	return map[string]interface{}{"demonstrations": len(files), "passed": passed, "skipped_not_compiling": skipped, "failed": failed,
		"label": "real-kernel regression scenarios: the demonstrations of the seeded changes recorded for this property, each of which passes on the unchanged tree"}
}

func runCanaries(prop string, rep *checkReport) map[string]interface{} {
	b, err := os.ReadFile(filepath.Join(verifRoot(), "selftest", "corpus.json"))
	if err != nil {
		return map[string]interface{}{"error": err.Error()}
	}
	var c struct {
		MustFail []struct {
			ID, Property, File, Old, New, Expect, Goos, Patch string
		} `json:"must_fail"`
	}
	if err := json.Unmarshal(b, &c); err != nil {
		return map[string]interface{}{"error": err.Error()}
	}
	self, _ := os.Executable()
	total, detected := 0, 0
	var details []map[string]string
	for _, m := range c.MustFail {
		if m.Property != prop {
			continue
		}
		total++
		outcome := func() string {
			dir, err := os.MkdirTemp("", "canary.")
			if err != nil {
				return "error: " + err.Error()
			}
			defer os.RemoveAll(dir)
			if out, err := exec.Command("rsync", "-a", "--exclude", ".git", repoDir()+"/", dir+"/").CombinedOutput(); err != nil {
				return "error: rsync: " + string(out)
			}
			if m.Patch != "" {
				pc := exec.Command("patch", "-p1", "-s", "-i", filepath.Join(verifRoot(), m.Patch))
				pc.Dir = dir
				if out, err := pc.CombinedOutput(); err != nil {
					return "stale (patch does not apply to this tree): " + firstLines(string(out), 2)
				}
			} else {
				src, err := os.ReadFile(filepath.Join(dir, m.File))
				if err != nil || !strings.Contains(string(src), m.Old) {
					return "stale (edit does not apply to this tree)"
				}
				os.WriteFile(filepath.Join(dir, m.File), []byte(strings.Replace(string(src), m.Old, m.New, 1)), 0o644)
			}
			cmd := exec.Command(self, "check", prop, "--tier", "quick")
			cmd.Env = append(os.Environ(), "VERIF_REPO="+dir, "VERIF_EVIDENCE_DIR="+filepath.Join(dir, ".evidence"), "VERIF_TIER=quick")
			out, _ := cmd.CombinedOutput()
			for _, ln := range strings.Split(string(out), "\n") {
				if (strings.HasPrefix(ln, "failed obligation") || strings.HasPrefix(ln, "bounded C") || strings.HasPrefix(ln, "scenario ")) && strings.Contains(ln, m.Expect) {
					return "detected"
				}
			}
			if strings.Contains(string(out), "VIOLATION") {
				return "detected (other obligation)"
			}
			return "MISSED"
		}()
		if strings.HasPrefix(outcome, "detected") {
			detected++
		} else if outcome == "MISSED" {
			rep.undecided = append(rep.undecided, "canary "+m.ID+" (a deliberate break of "+prop+") is no longer detected")
		}
		details = append(details, map[string]string{"id": m.ID, "outcome": outcome})
	}
	return map[string]interface{}{"total": total, "detected": detected, "details": details}
}


func metaScenarios(prop string) []string {
	b, err := os.ReadFile(filepath.Join(verifRoot(), "spec", "meta.json"))
	if err != nil {
		return nil
	}
	var m map[string]json.RawMessage
	if json.Unmarshal(b, &m) != nil {
		return nil
	}
	var e struct {
		Scenarios []string `json:"scenarios"`
	}
	if raw, ok := m[prop]; ok {
		json.Unmarshal(raw, &e)
	}
	return e.Scenarios
}


var kqOnce sync.Once

// runKqScenarios builds the kqueue-on-Linux replay module from the real sources of the tree under check
// (replay/kqueue/build.sh: build-constraint line and two import paths rewritten, scripted kqsim) and runs
// all its scenario tests once.
func runKqScenarios() {
	kqOnce.Do(func() {
		dir, err := os.MkdirTemp("", "kqreal.")
		if err != nil {
			return
		}
		defer os.RemoveAll(dir)
		if out, err := exec.Command("bash", filepath.Join(verifRoot(), "replay", "kqueue", "build.sh"), repoDir(), dir).CombinedOutput(); err != nil {
			scenarioCache.Store("kq:build", [2]interface{}{false, string(out)})
			return
		}
		cmd := exec.Command("go", "test", "-count=1", "-v", "-timeout", "180s", ".")
		cmd.Dir = dir
		cmd.Env = append(os.Environ(), "GOFLAGS=-mod=mod", "GOPROXY=off", "GOSUMDB=off", "GOTOOLCHAIN=local")
		out, _ := cmd.CombinedOutput()
		// split the verbose output per test
		cur := ""
		outputs := map[string]*strings.Builder{}
		for _, ln := range strings.Split(string(out), "\n") {
			t := strings.TrimSpace(ln)
			switch {
			case strings.HasPrefix(t, "=== RUN"):
				cur = strings.TrimSpace(strings.TrimPrefix(t, "=== RUN"))
				outputs[cur] = &strings.Builder{}
			case strings.HasPrefix(t, "--- PASS:"), strings.HasPrefix(t, "--- FAIL:"):
				f := strings.Fields(t)
				if len(f) >= 3 {
					pass := f[1] == "PASS:"
					o := ""
					if b := outputs[f[2]]; b != nil {
						o = b.String()
					}
					scenarioCache.Store("kq:"+f[2], [2]interface{}{pass, o})
				}
			default:
				if b := outputs[cur]; b != nil {
					b.WriteString(ln + "\n")
				}
			}
		}
		if !strings.Contains(string(out), "--- ") {
			// did not compile or run: every kq scenario is undecided, reported as not run
			scenarioCache.Store("kq:build", [2]interface{}{false, firstLines(string(out), 10)})
		}
	})
}
