package main

import (
	"fmt"
	"go/ast"
	"go/constant"
	"go/token"
	"go/types"
	"strings"
)

func funcKeyOf(fn *types.Func) string {
	sig := fn.Type().(*types.Signature)
	name := fn.Name()
	pk := ""
	if fn.Pkg() != nil {
		if pre, ok := mainPkgPaths.Load(fn.Pkg().Path()); ok {
			pk = pre.(string)
		} else {
			pk = fn.Pkg().Name() + "."
		}
	}
	if sig.Recv() != nil {
		t := sig.Recv().Type()
		if p, ok := t.(*types.Pointer); ok {
			t = p.Elem()
		}
		if n, ok := t.(*types.Named); ok {
			return pk + n.Obj().Name() + "." + name
		}
		return pk + typeKey(t) + "." + name
	}
	return pk + name
}

// call evaluates a call expression. nres is the number of results wanted (0 = statement).
func (x *Exec) call(e *ast.CallExpr, st *State, nres int) Value {
	if tv, ok := x.info.Types[e.Fun]; ok && tv.IsType() {
		return x.convert(e, st)
	}
	fun := unparen(e.Fun)
	// builtins
	if id, ok := fun.(*ast.Ident); ok {
		if b, ok := x.info.Uses[id].(*types.Builtin); ok {
			return x.builtin(b.Name(), e, st)
		}
	}
	var fn *types.Func
	var recv Value
	var recvExpr ast.Expr
	var callee Value
	switch f := fun.(type) {
	case *ast.Ident:
		switch o := x.info.Uses[f].(type) {
		case *types.Func:
			fn = o
		case *types.Var:
			callee = x.expr(f, st)
		}
	case *ast.SelectorExpr:
		sel := x.info.Selections[f]
		if sel == nil {
			switch o := x.info.Uses[f.Sel].(type) {
			case *types.Func:
				fn = o
			default:
				callee = x.expr(f, st)
			}
		} else if sel.Kind() == types.MethodVal {
			fn = sel.Obj().(*types.Func)
			recvExpr = f.X
			if x.isSyncMethod(fn) {
				if fn.Name() == "Do" && len(e.Args) == 1 {
					// sync.Once.Do(f): f runs at most once over all calls; for this call: it runs now, or it ran before
					// (in another thread, possibly concurrently: whatever other threads may change has changed)
					if lit, ok := e.Args[0].(*ast.FuncLit); ok {
						x.interfere(st)
						run, skip := st.clone(), st.clone()
						first := x.vc.fresh("once.first", sortBool)
						x.addPC(run, first)
						x.addPC(skip, tNot(first))
						x.inlineBody(nil, x.info.TypeOf(lit).(*types.Signature), lit.Body, nil, nil, run, "once", lit)
						st.set(x.merge(run, skip))
						x.abstractions["sync.Once.Do: the function runs now or has run before (trusted)"] = true
						return nil
					}
				}
				return x.syncCall(fn, f, st, e.Pos())
			}
			recv = x.methodRecv(f, sel, st)
		} else {
			callee = x.expr(f, st)
		}
	case *ast.FuncLit:
		callee = ClosureV{Lit: f}
	default:
		callee = x.expr(fun, st)
	}
	_ = recvExpr
	if callee != nil {
		switch c := callee.(type) {
		case ClosureV:
			args := x.evalArgs(e, x.info.TypeOf(c.Lit).(*types.Signature), st)
			return x.inlineBody(nil, x.info.TypeOf(c.Lit).(*types.Signature), c.Lit.Body, nil, args, st, "closure", c.Lit)
		case FuncV:
			fn, recv = c.Fn, c.Recv
		default:
			// unknown function value
			sig, _ := x.info.TypeOf(e.Fun).Underlying().(*types.Signature)
			args := x.evalArgs(e, sig, st)
			return x.unknownCall("func value "+x.nodeStr(e.Fun), sig, args, st)
		}
	}
	sig := fn.Type().(*types.Signature)
	// interface method: devirtualise
	if sig.Recv() != nil {
		if _, isIface := sig.Recv().Type().Underlying().(*types.Interface); isIface {
			if ct := x.declaredImpl(recvExpr); ct != nil {
				if obj, _, _ := types.LookupFieldOrMethod(ct, true, x.pkg.Types, fn.Name()); obj != nil {
					if f, ok := obj.(*types.Func); ok {
						fn = f
						sig = fn.Type().(*types.Signature)
					}
				}
			} else if impl := x.devirtualize(fn, sig.Recv().Type()); impl != nil {
				fn = impl
				sig = fn.Type().(*types.Signature)
			}
		}
	}
	args := x.evalArgs(e, sig, st)
	return x.callFunc(fn, recv, args, st, e)
}

func (x *Exec) devirtualize(m *types.Func, iface types.Type) *types.Func {
	it, ok := iface.Underlying().(*types.Interface)
	if !ok {
		return nil
	}
	var found *types.Func
	n := 0
	scope := x.pkg.Types.Scope()
	for _, name := range scope.Names() {
		tn, ok := scope.Lookup(name).(*types.TypeName)
		if !ok {
			continue
		}
		pt := types.NewPointer(tn.Type())
		if types.Implements(pt, it) {
			obj, _, _ := types.LookupFieldOrMethod(pt, true, x.pkg.Types, m.Name())
			if f, ok := obj.(*types.Func); ok {
				found = f
				n++
			}
		}
	}
	if n == 1 {
		return found
	}
	return nil
}

// declaredImpl: the receiver expression is a field for which an `impl` directive names the concrete type.
func (x *Exec) declaredImpl(recvExpr ast.Expr) types.Type {
	se, ok := unparen(recvExpr).(*ast.SelectorExpr)
	if !ok || recvExpr == nil {
		return nil
	}
	sel := x.info.Selections[se]
	if sel == nil || sel.Kind() != types.FieldVal {
		return nil
	}
	return x.implOfField(structName(sel.Recv()), se.Sel.Name)
}

func (x *Exec) implOfField(owner, field string) types.Type {
	for _, c := range x.prog.Contracts.Impls {
		f := strings.Fields(c.Src)
		if f[0] == owner+"."+field {
			return x.resolveGoType(f[1])
		}
	}
	return nil
}

// uniqueImpl returns *T when T is the only named type of the package whose pointer implements it.
func (x *Exec) uniqueImpl(it *types.Interface) types.Type {
	var found types.Type
	n := 0
	scope := x.pkg.Types.Scope()
	for _, name := range scope.Names() {
		tn, ok := scope.Lookup(name).(*types.TypeName)
		if !ok {
			continue
		}
		if _, isIface := tn.Type().Underlying().(*types.Interface); isIface {
			continue
		}
		pt := types.NewPointer(tn.Type())
		if types.Implements(pt, it) {
			found = pt
			n++
		}
	}
	if n == 1 {
		return found
	}
	return nil
}

func (x *Exec) evalArgs(e *ast.CallExpr, sig *types.Signature, st *State) []Value {
	var args []Value
	if len(e.Args) == 1 && sig != nil && sig.Params().Len() > 1 {
		// f(g()) with multi-value g
		if _, ok := unparen(e.Args[0]).(*ast.CallExpr); ok {
			if tup, ok := x.info.TypeOf(e.Args[0]).(*types.Tuple); ok {
				return x.exprMulti(e.Args[0], st, tup.Len())
			}
		}
	}
	np := 0
	if sig != nil {
		np = sig.Params().Len()
	}
	for i, a := range e.Args {
		v := x.expr(a, st)
		if sig != nil {
			var pt types.Type
			if sig.Variadic() && i >= np-1 {
				if e.Ellipsis.IsValid() {
					pt = sig.Params().At(np - 1).Type()
				} else {
					pt = sig.Params().At(np - 1).Type().(*types.Slice).Elem()
				}
			} else if i < np {
				pt = sig.Params().At(i).Type()
			}
			if pt != nil {
				if _, isIface := pt.Underlying().(*types.Interface); !isIface || isErrorType(pt) {
					v = x.convertAssign(v, x.info.TypeOf(a), pt, st)
				}
			}
		}
		args = append(args, v)
	}
	if sig != nil && sig.Variadic() && !e.Ellipsis.IsValid() {
		// pack the variadic tail into a slice
		is := x.idxSort()
		et := sig.Params().At(np - 1).Type().(*types.Slice).Elem()
		tail := append([]Value(nil), args[min(np-1, len(args)):]...)
		args = append([]Value(nil), args[:min(np-1, len(args))]...)
		_, etIface := et.Underlying().(*types.Interface)
		if !etIface && (x.scalarSort(et) != nil || isStructLike(et)) {
			symbolic := true
			for _, t := range tail {
				switch t.(type) {
				case Term, *StructV:
				default:
					symbolic = false
				}
			}
			if symbolic {
				arr := x.mkValue(et, []*Sort{is}, "va", func(s *Sort, _ string) Term { return zeroOf(s) })
				for i, t := range tail {
					arr = vSto(arr, x.constOfSort(int64(i), is), t)
				}
				args = append(args, &StructV{Names: []string{"$arr", "$off", "$len"}, F: []Value{arr, zeroOf(is), x.constOfSort(int64(len(tail)), is)}})
				return args
			}
		}
		args = append(args, TupleV(tail))
	}
	return args
}

func isStructLike(t types.Type) bool {
	_, ok := t.Underlying().(*types.Struct)
	return ok
}

func (x *Exec) callFunc(fn *types.Func, recv Value, args []Value, st *State, e *ast.CallExpr) Value {
	key := funcKeyOf(fn)
	full := fn.FullName()
	sig := fn.Type().(*types.Signature)
	pos := token.NoPos
	if e != nil {
		pos = e.Pos()
	}
	if v, ok := x.libCall(full, fn, recv, args, st, e); ok {
		return v
	}
	if x.topC != nil && x.vc.silent == 0 {
		for _, ca := range x.topC.CallAsserts {
			if ca.Callee != key {
				continue
			}
			if x.clauseModeOff(ca.Clause) {
				continue // `modeX ==> ...` while another mode is being verified: the clause (and its cover) says nothing here
			}
			env := x.frameEnv(st)
			if x.inHelperWithoutContract() {
				env = x.topFrameEnv(st)
			}
			env.vars = copyVars(env.vars)
			for i := 0; i < sig.Params().Len() && i < len(args); i++ {
				if n := sig.Params().At(i).Name(); n != "" && n != "_" {
					env.vars["$"+n] = TV{V: args[i], T: sig.Params().At(i).Type()}
					env.vars["arg_"+n] = TV{V: args[i], T: sig.Params().At(i).Type()}
				}
			}
			for _, g := range x.specConjuncts(ca.Clause.Expr, env) {
				x.assert(st, "callsite", "at call to "+key+": "+g.label(ca.Clause.Label), g.t, ca.Clause.Tags, pos)
			}
			// the call site must be reachable, or the assertion above says nothing
			x.assert(st, "vacuity", "call to "+key+" is reachable", tFalse, nil, pos)
		}
	}
	fc := x.prog.Contracts.Funcs[key]
	fi := x.prog.FuncsByObj[fn]
	if fc != nil && staleSignature(fc, sig) != "" {
		fc = nil // a contract written for another interface says nothing about this call: the body is used instead
		x.abstractions["call to "+key+": its contract is stale (signature changed), the body was inlined"] = true
	}
	if fc != nil && fc.Opts["callback"] != "" {
		if v, ok := x.callbackCall(fc, key, sig, args, st, pos); ok {
			return v
		}
	}
	if fc != nil && fc.Opts["inline"] == "" {
		return x.callContract(fc, fi, sig, recv, args, st, pos, key, e)
	}
	if fi != nil && fi.Decl.Body != nil && fi.Pkg == x.pkg {
		return x.inlineBody(fi, sig, fi.Decl.Body, recv, args, st, key, nil)
	}
	return x.unknownCall(full, sig, args, st)
}

// callbackCall models an external function that invokes its function argument any number of times, sequentially and
// on the calling goroutine, with arguments the caller does not control (trusted contract: `opt callback = <param>`).
// The invocations are treated like the iterations of a loop: the caller's `callback <callee>: inv` clauses must hold
// before the call and after every invocation; what the closure may write is found by a dry run and havoc'd.
func (x *Exec) callbackCall(fc *FuncContract, key string, sig *types.Signature, args []Value, st *State, pos token.Pos) (Value, bool) {
	idx := -1
	for i := 0; i < sig.Params().Len(); i++ {
		name := sig.Params().At(i).Name()
		if i < len(fc.ParamNames) {
			name = fc.ParamNames[i]
		}
		if name == fc.Opts["callback"] {
			idx = i
		}
	}
	if idx < 0 || idx >= len(args) {
		return nil, false
	}
	cl, ok := args[idx].(ClosureV)
	if !ok {
		return nil, false
	}
	csig := x.info.TypeOf(cl.Lit).(*types.Signature)
	var invs []*Clause
	if x.topC != nil {
		for _, ca := range x.topC.CallbackInvs {
			if ca.Callee == key && !x.clauseModeOff(ca.Clause) {
				invs = append(invs, ca.Clause)
			}
		}
	}
	check := func(s *State, kind string) {
		if s.dead {
			return
		}
		env := x.frameEnv(s)
		for _, inv := range invs {
			x.curLabel = inv.Label
			for _, g := range x.specConjuncts(inv.Expr, env) {
				x.assert(s, kind, "callback of "+key+": "+g.label(inv.Label), g.t, inv.Tags, pos)
			}
		}
	}
	assumeInvs := func(s *State) {
		env := x.frameEnv(s)
		for _, inv := range invs {
			x.assume(s, x.specTerm(inv.Expr, env))
		}
	}
	invoke := func(s *State) {
		var cargs []Value
		for i := 0; i < csig.Params().Len(); i++ {
			cargs = append(cargs, x.freshTyped(csig.Params().At(i).Type(), "cbarg", s))
		}
		x.cbDepth++
		x.inlineBody(nil, csig, cl.Lit.Body, nil, cargs, s, "callback", cl.Lit)
		x.cbDepth--
	}
	x.interfere(st)
	check(st, "cb-init")
	mv, mh := x.dryRun(st, func(s0 *State) []*State {
		invoke(s0)
		return []*State{s0}
	})
	for o := range mv {
		x.havocVar(st, o)
	}
	for k := range mh {
		x.havocHeap(st, k)
	}
	assumeInvs(st)
	more := x.vc.fresh("more", sortBool)
	sb := st.clone()
	x.addPC(sb, more)
	invoke(sb)
	check(sb, "cb-keep")
	// the state after the call is the state at the head of some iteration (the invariant holds, whatever the
	// closure may write has an arbitrary value consistent with it)
	x.abstractions["call to "+key+": modelled as any number of sequential invocations of its function argument (trusted)"] = true
	return x.freshResults(sig, key+".res", st), true
}

// rangeCopied returns an array value equal to dst except that positions dstFrom .. dstFrom+n-1 hold
// src[srcFrom .. srcFrom+n-1] (unconstrained when src is nil: bytes of an uninterpreted string).
func (x *Exec) rangeCopied(dst Value, dstFrom Term, src Value, srcFrom Term, n Term, st *State) Value {
	is := x.idxSort()
	var walk func(d, s Value) Value
	walk = func(d, s Value) Value {
		switch dv := d.(type) {
		case Term:
			na := x.vc.fresh("copied", dv.T)
			q := Term{"qc", is}
			rel := x.subIdx(q, dstFrom)
			inRange := tAnd(x.leIdx(dstFrom, q), x.ltInt(rel, n))
			var body Term
			keep := tEq(tSelect(na, q), tSelect(dv, q))
			if s != nil {
				sv := s.(Term)
				body = tIte(inRange, tEq(tSelect(na, q), tSelect(sv, x.addIdx(srcFrom, rel))), keep)
			} else {
				body = tImp(tNot(inRange), keep)
			}
			x.assume(st, Term{fmt.Sprintf("(forall ((qc %s)) (! %s :pattern (%s)))", is, body.S, tSelect(na, q).S), sortBool})
			return na
		case *StructV:
			out := &StructV{Names: dv.Names, F: make([]Value, len(dv.F))}
			for i := range dv.F {
				var si Value
				if s != nil {
					si = s.(*StructV).F[i]
				}
				out.F[i] = walk(dv.F[i], si)
			}
			return out
		}
		panic(fmt.Sprintf("rangeCopied on %T", d))
	}
	return walk(dst, src)
}

// builtinCopy: copy(dst, src) for a destination that is a slice variable or a slice of an addressable array
// (value semantics of slices: the destination expression receives the new contents).
func (x *Exec) builtinCopy(e *ast.CallExpr, st *State) Value {
	is := x.idxSort()
	dv, ok := x.expr(e.Args[0], st).(*StructV)
	if !ok || !isSlice(dv) {
		x.unsupported(e, "copy")
	}
	var srcArr Value
	var srcOff, srcLen Term
	switch sv := x.expr(e.Args[1], st).(type) {
	case *StructV:
		srcArr, srcOff, srcLen = sv.get("$arr"), sv.get("$off").(Term), sv.get("$len").(Term)
	default:
		// copy(dst, "string"): the bytes of a string are not modelled; guessing them would turn into spurious refutations
		_ = sv
		x.unsupported(e, "copy from a string")
	}
	dl := dv.get("$len").(Term)
	n := x.vc.name("ncopy", tIte(x.ltInt(dl, srcLen), dl, srcLen))
	na := x.rangeCopied(dv.get("$arr"), dv.get("$off").(Term), srcArr, srcOff, n, st)
	switch ae := unparen(e.Args[0]).(type) {
	case *ast.SliceExpr:
		if _, isArr := x.info.TypeOf(ae.X).Underlying().(*types.Array); isArr {
			x.assign(ae.X, na, st)
		} else if id, isID := unparen(ae.X).(*ast.Ident); isID {
			if base, ok := x.expr(id, st).(*StructV); ok && isSlice(base) {
				x.assign(id, base.with("$arr", na), st)
			} else {
				x.unsupported(e, "copy")
			}
		} else {
			x.unsupported(e, "copy")
		}
	case *ast.Ident:
		x.assign(ae, dv.with("$arr", na), st)
	default:
		x.unsupported(e, "copy")
	}
	_ = is
	return n
}

// inHelperWithoutContract: the statements being executed belong to a named function that was inlined into the function
// under verification because it has no contract of its own (e.g. a helper extracted by a refactoring).
func (x *Exec) inHelperWithoutContract() bool {
	for i := len(x.frames) - 1; i >= 1; i-- {
		if x.frames[i].fi != nil {
			return x.frames[i].contract == nil
		}
	}
	return false
}

// clauseModeOff: the clause has the form `<mode name> ==> ...` for a mode that is not the one under verification.
func (x *Exec) clauseModeOff(c *Clause) bool {
	ce, ok := c.Expr.(*ast.CallExpr)
	if !ok {
		return false
	}
	id, ok := ce.Fun.(*ast.Ident)
	if !ok || id.Name != "__imp" || len(ce.Args) != 2 {
		return false
	}
	m, ok := unparen(ce.Args[0]).(*ast.Ident)
	if !ok {
		return false
	}
	on, isMode := x.modeFlags[m.Name]
	return isMode && !on
}

func (x *Exec) unknownCall(name string, sig *types.Signature, args []Value, st *State) Value {
	x.abstractions["call to "+name+" without contract: results unconstrained"] = true
	refArg := false
	for _, a := range args {
		switch v := a.(type) {
		case Term:
			if v.T.K == SRef {
				refArg = true
			}
		case PtrLocalV:
			x.havocVar(st, v.Obj)
		case LocV:
			// &a[i], &s.f ...: the callee may overwrite that location
			if t := x.info.TypeOf(v.Expr); t != nil {
				x.assign(v.Expr, x.freshTyped(t, "written", st), st)
			}
		case *StructV:
			vLeaves(v, func(t Term) {
				if t.T.K == SRef {
					refArg = true
				}
			})
		}
	}
	if refArg && sig != nil {
		// An external function may change what it can reach. State of the verified package's own (unexported) struct
		// and map types is reachable only through a pointer of such a type among the arguments (assumption: externals
		// do not retain pointers to package-private objects); everything else reachable is havoc'd.
		reach := map[string]bool{}
		for i := 0; i < sig.Params().Len(); i++ {
			typeReach(sig.Params().At(i).Type(), reach, 0)
		}
		if sig.Recv() != nil {
			typeReach(sig.Recv().Type(), reach, 0)
		}
		for _, k := range sortedKeys(x.heapBase) {
			if !(strings.HasPrefix(k, "f:") || strings.HasPrefix(k, "m:") || strings.HasPrefix(k, "box:")) || x.frameProtected(k) {
				continue
			}
			if x.privateKey(k) && !reach[heapKeyType(k)] {
				continue
			}
			x.havocHeap(st, k)
		}
		x.abstractions["call to "+name+" with pointer arguments: the heap it can reach is havoc'd (package-private objects are assumed not retained by externals)"] = true
	}
	if sig == nil {
		return nil
	}
	return x.freshResults(sig, name, st)
}

// frameProtected: keys of in-package structs/maps that externals cannot reach
// (they are unexported types of this package).
func (x *Exec) frameProtected(key string) bool {
	k := strings.TrimPrefix(key, "f:")
	if x.prog.Contracts.Immutable[k] {
		return true
	}
	if _, ok := x.prog.Contracts.Owned[k]; ok {
		return true
	}
	if _, ok := x.prog.Contracts.Owned[key]; ok {
		return true
	}
	return false
}

func (x *Exec) freshResults(sig *types.Signature, hint string, st *State) Value {
	res := sig.Results()
	switch res.Len() {
	case 0:
		return nil
	case 1:
		return x.freshTyped(res.At(0).Type(), hint, st)
	}
	var tv TupleV
	for i := 0; i < res.Len(); i++ {
		tv = append(tv, x.freshTyped(res.At(i).Type(), hint, st))
	}
	return tv
}

func (x *Exec) freshTyped(t types.Type, hint string, st *State) Value {
	v := x.freshValue(t, sanitize(hint))
	x.assumeTypeInv(v, t, st)
	return v
}

// assumeTypeInv: representation invariants of values coming from outside (lengths are non-negative).
func (x *Exec) assumeTypeInv(v Value, t types.Type, st *State) {
	if tm, ok := v.(Term); ok && tm.T.K == SInt && t != nil && isInteger(t) {
		// mathematical-integer mode: a Go int is a 64-bit value
		x.assume(st, tAnd(mk(sortBool, "<=", Term{minInt64S, sortInt}, tm), mk(sortBool, "<=", tm, Term{maxInt64S, sortInt})))
		return
	}
	if isSlice(v) {
		sv := v.(*StructV)
		ln, ok := sv.get("$len").(Term)
		if !ok || ln.T.K == SArr {
			return
		}
		x.assume(st, tAnd(x.geZero(ln), x.geZero(sv.get("$off").(Term))))
		if ln.T.K == SInt {
			x.assume(st, mk(sortBool, "<=", ln, Term{maxInt64S, sortInt}))
		}
	}
}

// ---- inlining ----

func (x *Exec) paramObjs(ft *ast.FuncType, recvFL *ast.FieldList) (recv types.Object, params []types.Object, results []types.Object) {
	if recvFL != nil && len(recvFL.List) > 0 && len(recvFL.List[0].Names) > 0 {
		recv = x.info.Defs[recvFL.List[0].Names[0]]
	}
	for _, f := range ft.Params.List {
		if len(f.Names) == 0 {
			params = append(params, nil)
		}
		for _, n := range f.Names {
			params = append(params, x.info.Defs[n])
		}
	}
	if ft.Results != nil {
		for _, f := range ft.Results.List {
			if len(f.Names) == 0 {
				results = append(results, nil)
			}
			for _, n := range f.Names {
				results = append(results, x.info.Defs[n])
			}
		}
	}
	return
}

func (x *Exec) inlineBody(fi *FuncInfo, sig *types.Signature, body *ast.BlockStmt, recv Value, args []Value, st *State, name string, lit *ast.FuncLit) Value {
	if len(x.inlineStack) > 12 {
		x.unsupported(body, "inlining too deep at %s", name)
	}
	for _, n := range x.inlineStack {
		if n == name && fi != nil {
			x.unsupported(body, "recursive call to %s without contract", name)
		}
	}
	var ft *ast.FuncType
	var recvFL *ast.FieldList
	fr := &Frame{fi: fi, sig: sig, name: name, lit: lit}
	if fi != nil {
		ft, recvFL = fi.Decl.Type, fi.Decl.Recv
		fr.loopOrd = fi.LoopOrd
		fr.contract = x.prog.Contracts.Funcs[fi.Key]
	} else if lit != nil {
		ft = lit.Type
		// closures share the loop ordinals and contract of the enclosing function
		if len(x.frames) > 0 {
			fr.loopOrd = x.frame().loopOrd
			fr.contract = x.frame().contract
			fr.recvTV = x.frame().recvTV
		}
	}
	if ft != nil {
		ro, ps, rs := x.paramObjs(ft, recvFL)
		if ro != nil {
			st.vars[ro] = recv
			fr.recvTV = &TV{V: recv, T: ro.Type()}
		}
		for i, p := range ps {
			if p != nil && i < len(args) {
				st.vars[p] = args[i]
			}
		}
		fr.results = rs
		for _, r := range rs {
			if r != nil {
				st.vars[r] = x.zeroValue(r.Type())
			}
		}
	}
	x.frames = append(x.frames, fr)
	x.inlineStack = append(x.inlineStack, name)
	st.defers = append(st.defers, nil)
	x.block(body.List, st)
	if !st.dead {
		var vals []Value
		for _, o := range fr.results {
			if o != nil {
				vals = append(vals, st.vars[o])
			}
		}
		if len(vals) != sig.Results().Len() {
			if sig.Results().Len() > 0 {
				x.unsupported(body, "missing return in %s", name)
			}
			vals = nil
		}
		x.doReturn(st, vals)
	}
	x.frames = x.frames[:len(x.frames)-1]
	x.inlineStack = x.inlineStack[:len(x.inlineStack)-1]
	return x.joinReturns(fr, sig, st)
}

func (x *Exec) joinReturns(fr *Frame, sig *types.Signature, st *State) Value {
	var states []*State
	for _, r := range fr.rets {
		r.st.defers = r.st.defers[:len(r.st.defers)-1]
		states = append(states, r.st)
	}
	if len(states) == 0 {
		st.dead = true
		return x.zeroResults(sig)
	}
	n := sig.Results().Len()
	var res []Value
	for i := 0; i < n; i++ {
		acc := fr.rets[len(fr.rets)-1].vals[i]
		for j := len(fr.rets) - 2; j >= 0; j-- {
			acc = x.iteV(fr.rets[j].st.pc, fr.rets[j].vals[i], acc, "result")
		}
		res = append(res, x.vc.nameV("res", acc))
	}
	st.set(x.merge(states...))
	switch n {
	case 0:
		return nil
	case 1:
		return res[0]
	}
	return TupleV(res)
}

func (x *Exec) zeroResults(sig *types.Signature) Value {
	n := sig.Results().Len()
	switch n {
	case 0:
		return nil
	case 1:
		return x.zeroValue(sig.Results().At(0).Type())
	}
	var tv TupleV
	for i := 0; i < n; i++ {
		tv = append(tv, x.zeroValue(sig.Results().At(i).Type()))
	}
	return tv
}

// ---- modular calls ----

// mayWrite computes (by a silent dry run of the body) the heap keys a function may modify.
func (x *Exec) mayWrite(fi *FuncInfo, fc *FuncContract) map[string]bool {
	if fc != nil && (fc.Pure || fc.Trusted) {
		m := map[string]bool{}
		for _, k := range fc.Modifies {
			m[k] = true
		}
		return m
	}
	if fi == nil {
		return map[string]bool{}
	}
	if m, ok := x.mayWriteCache[fi.Key]; ok {
		return m
	}
	defer func() {
		if fc != nil {
			if m, ok := x.mayWriteCache[fi.Key]; ok {
				for _, ef := range fc.Effects {
					m[x.effectKey(ef.Var)] = true
				}
			}
		}
	}()
	if x.mayWriteBusy[fi.Key] {
		return map[string]bool{}
	}
	x.mayWriteBusy[fi.Key] = true
	defer delete(x.mayWriteBusy, fi.Key)
	var res map[string]bool
	func() {
		defer func() {
			if r := recover(); r != nil {
				if u, ok := r.(unsupported); ok {
					x.abstractions["frame of "+fi.Key+" not computable ("+u.msg+"): every unprotected heap location havoc'd at its call sites"] = true
					res = map[string]bool{"*": true}
					return
				}
				panic(r)
			}
		}()
		savedInline := x.inlineStack
		x.inlineStack = nil
		x.noEnv++ // the frame is what the function itself writes, not what the environment does meanwhile
		defer func() { x.inlineStack = savedInline; x.noEnv-- }()
		st := newState()
		sig := fi.Obj.Type().(*types.Signature)
		_, heap := x.dryRun(st, func(s0 *State) []*State {
			var recv Value
			if sig.Recv() != nil {
				recv = x.freshValue(sig.Recv().Type(), "recv")
			}
			var args []Value
			for i := 0; i < sig.Params().Len(); i++ {
				args = append(args, x.freshValue(sig.Params().At(i).Type(), "arg"))
			}
			x.frames = nil
			x.loops = nil
			x.inlineBody(fi, sig, fi.Decl.Body, recv, args, s0, fi.Key, nil)
			return []*State{s0}
		})
		res = heap
	}()
	x.mayWriteCache[fi.Key] = res
	return res
}

func (x *Exec) callContract(fc *FuncContract, fi *FuncInfo, sig *types.Signature, recv Value, args []Value, st *State, pos token.Pos, key string, callExpr *ast.CallExpr) Value {
	// &local arguments: copy-in to a fresh box (copy-out after the call)
	type boxed struct {
		obj types.Object
		ref Term
		t   types.Type
	}
	var boxes []boxed
	for i, a := range args {
		pl, ok := a.(PtrLocalV)
		if !ok || i >= sig.Params().Len() {
			continue
		}
		pt, ok := sig.Params().At(i).Type().Underlying().(*types.Pointer)
		if !ok {
			continue
		}
		r := x.alloc(st, "box")
		x.storeDerefLocal(st, pt.Elem(), r, st.vars[pl.Obj])
		delete(st.local, r.S)
		args = append([]Value(nil), args...)
		args[i] = r
		boxes = append(boxes, boxed{pl.Obj, r, pt.Elem()})
	}
	defer func() {
		mw := x.mayWrite(fi, fc)
		for _, b := range boxes {
			if st.dead {
				continue
			}
			written := mw["*"]
			if _, isStruct := b.t.Underlying().(*types.Struct); isStruct {
				written = true
			} else if mw[x.boxKey(b.t)] {
				written = true
			}
			if written {
				st.vars[b.obj] = x.loadDeref(st, b.t, b.ref, pos)
			}
		}
	}()
	env := x.contractEnv(fc, fi, sig, recv, args, nil, st, st)
	// receiver must be non-nil for pointer receivers
	if sig.Recv() != nil {
		if _, isPtr := sig.Recv().Type().Underlying().(*types.Pointer); isPtr {
			if r, ok := recv.(Term); ok {
				x.assertSafety(st, "nil", "nil receiver in call to "+key, tNe(r, tNil), pos)
			}
		}
	}
	for _, rq := range fc.Requires {
		for _, g := range x.specConjuncts(rq.Expr, env) {
			x.assert(st, "pre", key+": "+g.label(rq.Label), g.t, rq.Tags, pos)
		}
	}
	// the environment acts first (the callee observes the state after it)
	if !fc.Pure {
		x.interfere(st)
	}
	old := st.clone()
	// frame
	mw := x.mayWrite(fi, fc)
	// a callee that writes state owned by a lock must be called with that lock held exclusively, not through RLock
	{
		cs := x.prog.Contracts
		flagged := map[string]bool{}
		for _, k := range sortedKeysB(mw) {
			name := strings.TrimPrefix(k, "f:")
			name = strings.TrimSuffix(strings.TrimSuffix(name, ".has"), ".val")
			if lock, ok := cs.Owned[name]; ok && !flagged[lock] {
				if rl, isT := x.getHeap(st, x.readLockedKey(lock)).(Term); isT && rl.S != "false" {
					flagged[lock] = true
					x.assertSafety(st, "own", "call to "+key+", which writes state owned by "+lock+", requires "+lock+" to be held exclusively (not through RLock)", tNot(rl), pos)
				}
			}
		}
	}
	if mw["*"] {
		for _, k := range sortedKeys(x.heapBase) {
			if (strings.HasPrefix(k, "f:") || strings.HasPrefix(k, "m:") || strings.HasPrefix(k, "box:")) && !x.prog.Contracts.Immutable[strings.TrimPrefix(k, "f:")] {
				x.havocHeap(st, k)
			}
		}
	}
	for _, k := range sortedKeysB(mw) {
		if k == "*" || strings.HasPrefix(k, "gv:$") {
			continue
		}
		if strings.HasPrefix(k, "xclosed:") {
			// monotone: may only become closed
			oldc := x.getHeap(st, k).(Term)
			if oldc.S != "true" {
				n := x.vc.fresh("closed", sortBool)
				x.assume(st, tImp(oldc, n))
				x.setHeap(st, k, n)
				// whether the callee itself closes it is for its postcondition to say
			}
			continue
		}
		if _, known := x.heapMakers[k]; !known {
			continue
		}
		x.havocHeap(st, k)
	}
	// copy-out for &local arguments
	for _, a := range args {
		if pl, ok := a.(PtrLocalV); ok && !fc.Pure {
			x.havocVar(st, pl.Obj)
		}
	}
	if wp := fc.Opts["writes"]; wp != "" && callExpr != nil {
		// the callee writes through this slice parameter: the sliced array gets unknown new contents
		for i := 0; i < sig.Params().Len() && i < len(args); i++ {
			name := sig.Params().At(i).Name()
			if i < len(fc.ParamNames) {
				name = fc.ParamNames[i]
			}
			if name != wp || i >= len(callExpr.Args) {
				continue
			}
			sl, isSl := args[i].(*StructV)
			if !isSl || !isSlice(sl) {
				x.unsupported(callExpr, "argument written by %s is not a slice", key)
			}
			na := x.freshLike(sl.get("$arr"), "written")
			switch ae := unparen(callExpr.Args[i]).(type) {
			case *ast.SliceExpr:
				if _, isArr := x.info.TypeOf(ae.X).Underlying().(*types.Array); isArr {
					x.assign(ae.X, na, st) // the sliced array itself changes
				} else {
					x.unsupported(callExpr, "argument written by %s: reslice of a slice", key)
				}
			case *ast.Ident:
				// a slice variable: under the value semantics used for slices the variable gets the new contents
				x.assign(ae, sl.with("$arr", na), st)
			default:
				x.unsupported(callExpr, "argument written by %s is not an addressable slice", key)
			}
			args = append([]Value(nil), args...)
			args[i] = sl.with("$arr", na)
		}
	}
	var results []Value
	for i := 0; i < sig.Results().Len(); i++ {
		results = append(results, x.freshTyped(sig.Results().At(i).Type(), key+".res", st))
	}
	if fc.Pure && fi == nil && len(results) == 1 {
		// deterministic external: an uninterpreted function of its arguments
		pure := true
		for _, a := range args {
			if _, ok := a.(Term); !ok {
				pure = false
			}
		}
		if pure {
			results[0] = x.pureApply(key, sig, args)
		}
	}
	env2 := x.contractEnv(fc, fi, sig, recv, args, results, st, old)
	for _, en := range fc.Ensures {
		x.assume(st, x.specTerm(en.Expr, env2))
	}
	switch len(results) {
	case 0:
		return nil
	case 1:
		return results[0]
	}
	return TupleV(results)
}

func sortedKeysB(m map[string]bool) []string {
	return sortedKeys(m)
}

// interfere applies the declared environment actions: externally closable
// channels may have been closed (monotone), the kernel may have dropped watches.
func (x *Exec) interfere(st *State) {
	if st.dead || x.noEnv > 0 {
		return
	}
	for _, k := range sortedKeys(x.heapMakers) {
		if strings.HasPrefix(k, "xclosed:") {
			old := x.getHeap(st, k).(Term)
			if old.S == "true" {
				continue
			}
			n := x.vc.fresh("closed", sortBool)
			x.assume(st, tImp(old, n))
			if a := x.prog.Contracts.Chans[strings.TrimPrefix(k, "xclosed:")]; a != nil && a.Guard != "" {
				x.assume(st, tImp(x.heldTerm(st, a.Guard), tEq(n, old)))
			}
			x.setHeap(st, k, n)
		}
	}
	x.envActions(st)
}

// ---- builtins ----

func (x *Exec) builtin(name string, e *ast.CallExpr, st *State) Value {
	is := x.idxSort()
	switch name {
	case "len", "cap":
		t := x.info.TypeOf(e.Args[0])
		switch u := t.Underlying().(type) {
		case *types.Slice:
			return x.expr(e.Args[0], st).(*StructV).get("$len")
		case *types.Array:
			return x.constOfSort(u.Len(), is)
		case *types.Basic:
			return x.strLen(x.expr(e.Args[0], st).(Term))
		case *types.Map:
			m := x.expr(e.Args[0], st).(Term)
			hasKey, _ := x.mapKeys(u)
			x.mapOwnCheck(st, u, m, false, e.Pos())
			has := tSelect(x.getHeap(st, hasKey).(Term), m)
			fn := "card." + sanitize(has.T.Idx.String())
			x.declSpecFun(fn, []*Sort{has.T}, is)
			c := mk(is, fn, has)
			x.assume(st, x.geZero(c))
			return c
		case *types.Pointer:
			if at, ok := u.Elem().Underlying().(*types.Array); ok {
				return x.constOfSort(at.Len(), is)
			}
		case *types.Chan:
			// whatever else the function serves, behaviour that depends on how full or how large a channel is
			// makes the event stream depend on buffering (C14) and on the consumer's timing (C03)
			tags := append(append([]string{}, x.safetyTags...), "C14", "C03")
			x.assert(st, "safety/structure", "len/cap of a channel is never used", tFalse, tags, e.Pos())
			return x.vc.fresh("chlen", is)
		}
	case "append":
		sl := x.expr(e.Args[0], st).(*StructV)
		if e.Ellipsis.IsValid() {
			// append(s, t...): s followed by the elements of t (a string's bytes are left unconstrained)
			arr, off, ln := sl.get("$arr"), sl.get("$off").(Term), sl.get("$len").(Term)
			var srcArr Value
			var srcOff, srcLen Term
			switch tv := x.expr(e.Args[1], st).(type) {
			case *StructV:
				srcArr, srcOff, srcLen = tv.get("$arr"), tv.get("$off").(Term), tv.get("$len").(Term)
			default:
				// append(bytes, str...): the bytes of a string are not modelled; guessing them would turn into spurious refutations
				_ = tv
				x.unsupported(e, "append(s, t...) with a string operand")
			}
			na := x.rangeCopied(arr, x.addIdx(off, ln), srcArr, srcOff, srcLen, st)
			nl := x.addIdx(ln, srcLen)
			x.assume(st, x.geZero(nl))
			return &StructV{Names: sl.Names, F: []Value{x.vc.nameV("app", na), off, x.vc.name("len", nl)}}
		}
		arr, off, ln := sl.get("$arr"), sl.get("$off").(Term), sl.get("$len").(Term)
		et := x.info.TypeOf(e.Args[0]).Underlying().(*types.Slice).Elem()
		for _, a := range e.Args[1:] {
			v := x.convertAssign(x.expr(a, st), x.info.TypeOf(a), et, st)
			arr = vSto(arr, x.addIdx(off, ln), v)
			ln = x.addIdx(ln, x.constOfSort(1, is))
		}
		// Go guarantee: a slice length is a non-negative int (allocation fails long before it wraps)
		x.assume(st, x.geZero(ln))
		return &StructV{Names: sl.Names, F: []Value{x.vc.nameV("app", arr), off, x.vc.name("len", ln)}}
	case "delete":
		mt := x.info.TypeOf(e.Args[0]).Underlying().(*types.Map)
		m := x.expr(e.Args[0], st).(Term)
		k := x.convertAssign(x.expr(e.Args[1], st), x.info.TypeOf(e.Args[1]), mt.Key(), st).(Term)
		x.mapDelete(st, mt, m, k, e.Pos())
		return nil
	case "make":
		t := x.info.TypeOf(e.Args[0])
		switch u := t.Underlying().(type) {
		case *types.Map:
			for _, a := range e.Args[1:] {
				x.expr(a, st)
			}
			return x.makeMap(u, st)
		case *types.Slice:
			ln := x.indexTerm(e.Args[1], st)
			x.assertSafety(st, "slice", "make: negative length", x.geZero(ln), e.Pos())
			if len(e.Args) > 2 {
				cp := x.indexTerm(e.Args[2], st)
				x.assertSafety(st, "slice", "make: len larger than cap", x.leIdx(ln, cp), e.Pos())
			}
			arr := x.mkValue(u.Elem(), []*Sort{is}, "mk", func(s *Sort, _ string) Term { return zeroOf(s) })
			return &StructV{Names: []string{"$arr", "$off", "$len"}, F: []Value{arr, zeroOf(is), ln}}
		case *types.Chan:
			r := x.alloc(st, "chan")
			cp := zeroOf(is)
			if len(e.Args) > 1 {
				cp = x.indexTerm(e.Args[1], st)
			}
			x.chanInit(st, r, cp, typeKey(u.Elem()))
			return r
		}
	case "close":
		c := x.expr(e.Args[0], st).(Term)
		x.closeChan(e.Args[0], c, st, e.Pos())
		return nil
	case "new":
		t := x.info.TypeOf(e.Args[0])
		r := x.alloc(st, "new")
		x.storeDerefLocal(st, t, r, x.zeroValue(t))
		return r
	case "panic":
		x.assertSafety(st, "panic", "explicit panic is unreachable", tFalse, e.Pos())
		st.dead = true
		return nil
	case "copy":
		return x.builtinCopy(e, st)
	case "min", "max":
		a := x.expr(e.Args[0], st).(Term)
		b := x.expr(e.Args[1], st).(Term)
		lt := x.binop(token.LSS, a, b, x.info.TypeOf(e.Args[0]), x.info.TypeOf(e.Args[1]), e, st)
		if name == "min" {
			return tIte(lt, a, b)
		}
		return tIte(lt, b, a)
	}
	x.unsupported(e, "builtin %s", name)
	return nil
}

func (x *Exec) storeDerefLocal(st *State, t types.Type, r Term, v Value) {
	if stt, ok := t.Underlying().(*types.Struct); ok {
		sv := v.(*StructV)
		for i := 0; i < stt.NumFields(); i++ {
			f := stt.Field(i)
			if x.skipField(f) {
				continue
			}
			key := x.fieldKey(t, f)
			x.setHeap(st, key, vSto(x.getHeap(st, key), r, sv.get(f.Name())))
		}
		return
	}
	key := x.boxKey(t)
	x.setHeap(st, key, vSto(x.getHeap(st, key), r, v))
}

// ---- library models ----

func (x *Exec) isSyncMethod(fn *types.Func) bool {
	return fn.Pkg() != nil && fn.Pkg().Path() == "sync"
}

func (x *Exec) libCall(full string, fn *types.Func, recv Value, args []Value, st *State, e *ast.CallExpr) (Value, bool) {
	switch full {
	case "(*strings.Builder).WriteString", "(*strings.Builder).WriteByte", "(*strings.Builder).WriteRune":
		pl, ok := recv.(PtrLocalV)
		if !ok {
			x.unsupported(e, "strings.Builder not a local variable")
		}
		cur := st.vars[pl.Obj].(Term)
		a := args[0].(Term)
		if a.T.K != SStr {
			x.declSpecFun("str.ofrune", []*Sort{a.T}, sortStr)
			a = mk(sortStr, "str.ofrune", a)
		}
		st.vars[pl.Obj] = x.strCat(cur, a)
		if full == "(*strings.Builder).WriteByte" {
			return tErrNil, true
		}
		return TupleV{x.vc.fresh("n", x.idxSort()), tErrNil}, true
	case "(*strings.Builder).Len":
		return x.strLen(x.recvStr(recv, st)), true
	case "(*strings.Builder).String":
		return x.recvStr(recv, st), true
	case "fmt.Errorf":
		return x.fmtErrorf(args, st, e), true
	case "errors.New":
		r := x.vc.fresh("err", sortErr)
		x.assume(st, tNe(r, tErrNil))
		x.assumeNotNamed(st, r)
		return r, true
	case "errors.Is":
		a, b := args[0].(Term), args[1].(Term)
		return tOr(tAnd(tNe(a, tErrNil), mk(sortBool, "errIs", a, b)), tEq(a, b)), true
	case "fmt.Sprintf", "fmt.Sprint":
		var ts []Term
		var ss []*Sort
		for _, a := range x.flattenVariadic(args) {
			t, ok := a.(Term)
			if !ok {
				x.unsupported(e, "Sprintf of composite value %T", a)
			}
			ts = append(ts, t)
			ss = append(ss, t.T)
		}
		name := fmt.Sprintf("fmt.Sprintf.%d", len(ts))
		for _, s := range ss {
			name += "." + sanitize(s.String())
		}
		x.declSpecFun(name, ss, sortStr)
		return mk(sortStr, name, ts...), true
	case "fmt.Fprintf", "fmt.Fprintln", "fmt.Printf", "fmt.Println", "fmt.Fprint":
		// debug output: no modelled effect
		return TupleV{x.vc.fresh("n", x.idxSort()), x.vc.fresh("err", sortErr)}, true
	}
	return nil, false
}

func (x *Exec) recvStr(recv Value, st *State) Term {
	switch r := recv.(type) {
	case PtrLocalV:
		return st.vars[r.Obj].(Term)
	case Term:
		return r
	}
	panic("strings.Builder receiver")
}

func (x *Exec) flattenVariadic(args []Value) []Value {
	var out []Value
	for _, a := range args {
		if tv, ok := a.(TupleV); ok {
			out = append(out, tv...)
			continue
		}
		out = append(out, a)
	}
	return out
}

// named (package-level) error variables of the main package
func (x *Exec) namedErrors() []Term {
	var out []Term
	scope := x.pkg.Types.Scope()
	for _, n := range scope.Names() {
		if v, ok := scope.Lookup(n).(*types.Var); ok && isErrorType(v.Type()) {
			out = append(out, x.vc.errVar(v.Pkg().Name()+"."+v.Name()))
		}
	}
	return out
}

func (x *Exec) assumeNotNamed(st *State, e Term) {
	for _, ev := range x.namedErrors() {
		x.assume(st, tAnd(tNot(mk(sortBool, "errIs", e, ev)), tNe(e, ev)))
	}
}

func (x *Exec) fmtErrorf(args []Value, st *State, e *ast.CallExpr) Value {
	r := x.vc.fresh("err", sortErr)
	x.assume(st, tNe(r, tErrNil))
	flat := x.flattenVariadic(args)
	var wrapped []Term
	if e != nil && len(e.Args) > 0 {
		if tv, ok := x.info.Types[e.Args[0]]; ok && tv.Value != nil && tv.Value.Kind() == constant.String {
			format := constant.StringVal(tv.Value)
			ai := 1
			for i := 0; i < len(format); i++ {
				if format[i] != '%' {
					continue
				}
				i++
				for i < len(format) && strings.ContainsRune("+-# 0123456789.", rune(format[i])) {
					i++
				}
				if i >= len(format) {
					break
				}
				if format[i] == '%' {
					continue
				}
				if format[i] == 'w' && ai < len(flat) {
					if t, ok := flat[ai].(Term); ok && t.T.K == SErr {
						wrapped = append(wrapped, t)
					}
				}
				ai++
			}
		}
	}
	for _, ev := range x.namedErrors() {
		var alts []Term
		for _, w := range wrapped {
			alts = append(alts, tOr(tEq(w, ev), tAnd(tNe(w, tErrNil), mk(sortBool, "errIs", w, ev))))
		}
		x.assume(st, tAnd(tEq(mk(sortBool, "errIs", r, ev), tOr(alts...)), tNe(r, ev)))
	}
	return r
}

// ---- locks ----

// lockClass finds "<Struct>.<field>" for the mutex expression m (e.g. w.mu).
func (x *Exec) lockClass(m ast.Expr) (string, ast.Expr) {
	se, ok := unparen(m).(*ast.SelectorExpr)
	if !ok {
		x.unsupported(m, "lock expression")
	}
	sel := x.info.Selections[se]
	if sel == nil {
		x.unsupported(m, "lock expression")
	}
	t := x.info.TypeOf(se.X)
	idx := sel.Index()
	for _, i := range idx[:len(idx)-1] {
		if p, ok := t.Underlying().(*types.Pointer); ok {
			t = p.Elem()
		}
		t = t.Underlying().(*types.Struct).Field(i).Type()
	}
	return structName(t) + "." + se.Sel.Name, se.X
}

func (x *Exec) syncCall(fn *types.Func, f *ast.SelectorExpr, st *State, pos token.Pos) Value {
	class, base := x.lockClass(f.X)
	hk := x.heldKey(class)
	cs := x.prog.Contracts
	switch fn.Name() {
	case "Lock", "RLock":
		x.assertSafety(st, "lock", "Lock of "+class+" while already held (self-deadlock)", tNot(x.heldTerm(st, class)), pos)
		// lock order: no later lock may be held
		seen := false
		for _, l := range cs.LockOrder {
			if l == class {
				seen = true
				continue
			}
			if seen {
				x.assertSafety(st, "lock", "lock order: "+class+" is acquired before "+l, tNot(x.heldTerm(st, l)), pos)
			}
		}
		// evaluate base for nil-ness
		x.expr(base, st)
		x.interfere(st)
		for _, k := range sortedKeys(cs.Owned) {
			if cs.Owned[k] != class {
				continue
			}
			if _, conf := cs.Confined[k]; conf {
				continue // thread-confined as well: no other thread can have changed it
			}
			x.havocOwned(st, k)
		}
		x.setHeap(st, hk, tTrue)
		// a read lock (RWMutex.RLock) lets other readers in: state owned by the lock may be read, not written
		if fn.Name() == "RLock" {
			x.setHeap(st, x.readLockedKey(class), tTrue)
		} else {
			x.setHeap(st, x.readLockedKey(class), tFalse)
		}
		x.setHeap(st, x.didLockKey(class), tTrue)
		x.snapshotOwned(st, class, "atlock:")
		snap := map[string]Value{}
		for k, v := range st.heap {
			snap[k] = v
		}
		st.locks[class] = snap
		if li := cs.LockInvs[class]; li != nil {
			if env := x.lockInvEnv(li, base, st); env != nil {
				for _, c := range li.Clauses {
					x.assume(st, x.specTerm(c.Expr, env))
				}
			}
		}
	case "Unlock", "RUnlock":
		x.assertSafety(st, "lock", "Unlock of "+class+" that is not held", x.heldTerm(st, class), pos)
		if li := cs.LockInvs[class]; li != nil {
			env := x.lockInvEnv(li, base, st)
			if env != nil {
				for _, c := range li.Clauses {
					for _, g := range x.specConjuncts(c.Expr, env) {
						x.assert(st, "lockinv", g.label(c.Label), g.t, c.Tags, pos)
					}
				}
			} else {
				// not instantiable here: the owned state must be untouched
				snap := st.locks[class]
				for _, k := range sortedKeys(cs.Owned) {
					if cs.Owned[k] != class {
						continue
					}
					for _, hkey := range x.ownedHeapKeys(k) {
						cur, has := st.heap[hkey]
						if !has {
							continue
						}
						if sv, ok := snap[hkey]; !ok || !vSame(cur, sv) {
							x.assert(st, "lockinv", "state owned by "+class+" is modified where the invariant cannot be instantiated", tFalse, nil, pos)
						}
					}
				}
			}
		}
		x.snapshotOwned(st, class, "atunlock:")
		x.setHeap(st, hk, tFalse)
	default:
		x.unsupported(f, "sync method %s", fn.Name())
	}
	return nil
}

func (x *Exec) effectKey(v string) string {
	if strings.HasPrefix(v, "tok:") {
		return x.tokKey(v[4:])
	}
	return x.ghostKey(v)
}

func (x *Exec) didLockKey(class string) string {
	key := "didlock:" + class
	x.registerHeap(key, func() Value { return x.vc.freshBase("didlock", sortBool) })
	return key
}

// snapshotOwned copies the state owned by a lock class into shadow heap keys.
func (x *Exec) snapshotOwned(st *State, class, prefix string) {
	cs := x.prog.Contracts
	for _, k := range sortedKeys(cs.Owned) {
		if cs.Owned[k] != class {
			continue
		}
		for _, hk := range x.ownedHeapKeys(k) {
			if _, ok := x.heapMakers[hk]; !ok {
				continue
			}
			hk := hk
			x.registerHeap(prefix+hk, func() Value { return x.freshLikeBase(x.getHeap(st, hk), prefix+hk) })
			x.setHeap(st, prefix+hk, x.getHeap(st, hk))
		}
	}
}

func (x *Exec) freshLikeBase(v Value, hint string) Value {
	switch t := v.(type) {
	case Term:
		return x.vc.freshBase(hint, t.T)
	case *StructV:
		n := &StructV{Names: t.Names, F: make([]Value, len(t.F))}
		for i, f := range t.F {
			n.F[i] = x.freshLikeBase(f, hint+"."+t.Names[i])
		}
		return n
	}
	return v
}

// shadowState returns a view of st in which lock-owned heap keys are replaced by their snapshots.
func (x *Exec) shadowState(st *State, prefix string) *State {
	n := st.clone()
	for k, v := range st.heap {
		if strings.HasPrefix(k, prefix) {
			n.heap[strings.TrimPrefix(k, prefix)] = v
		}
	}
	return n
}

func (x *Exec) ownedHeapKeys(k string) []string {
	if strings.HasPrefix(k, "m:") {
		return []string{k + ".has", k + ".val"}
	}
	if strings.HasPrefix(k, "ghost:") {
		return []string{k}
	}
	return []string{"f:" + k}
}

func (x *Exec) havocOwned(st *State, k string) {
	for _, hk := range x.ownedHeapKeys(k) {
		if _, ok := x.heapMakers[hk]; ok {
			x.havocHeap(st, hk)
		}
	}
}

func (x *Exec) lockInvEnv(li *LockInv, base ast.Expr, st *State) *SpecEnv {
	bt := x.info.TypeOf(base)
	if structName(bt) == li.RecvType {
		env := x.frameEnv(st)
		env.vars = copyVars(env.vars)
		env.vars[li.RecvName] = TV{V: x.expr(base, st), T: bt}
		return env
	}
	// look for a receiver of the wanted type in the active frames
	for i := len(x.frames) - 1; i >= 0; i-- {
		if tv := x.frames[i].recvTV; tv != nil && structName(tv.T) == li.RecvType {
			env := x.frameEnv(st)
			env.vars = copyVars(env.vars)
			env.vars[li.RecvName] = *tv
			return env
		}
	}
	return nil
}

func copyVars(m map[string]TV) map[string]TV {
	n := make(map[string]TV, len(m)+1)
	for k, v := range m {
		n[k] = v
	}
	return n
}


// heapKeyType: "f:watch.path" -> "watch"; "m:K:V" -> the key itself; "box:T" -> T
func heapKeyType(k string) string {
	switch {
	case strings.HasPrefix(k, "f:"):
		t := k[2:]
		if i := strings.LastIndex(t, "."); i >= 0 {
			return t[:i]
		}
		return t
	case strings.HasPrefix(k, "m:"):
		return strings.TrimSuffix(strings.TrimSuffix(k, ".has"), ".val")
	case strings.HasPrefix(k, "box:"):
		return k[4:]
	}
	return k
}

// privateKey: heap of struct types declared in the package under verification
// (their names carry no package qualifier), or of maps mentioning such a type.
func (x *Exec) privateKey(k string) bool {
	t := heapKeyType(k)
	if strings.HasPrefix(k, "f:") {
		return !strings.Contains(t, ".")
	}
	return strings.Contains(t, x.pkg.Types.Name()+".")
}

// typeReach collects the struct type names (as used in heap keys) reachable from t.
func typeReach(t types.Type, out map[string]bool, depth int) {
	if depth > 6 || t == nil {
		return
	}
	switch u := t.(type) {
	case *types.Named:
		name := structName(u)
		if out[name] {
			return
		}
		if _, ok := u.Underlying().(*types.Struct); ok {
			out[name] = true
		}
		typeReach(u.Underlying(), out, depth+1)
	case *types.Pointer:
		out["box:"+typeKey(u.Elem())] = true
		typeReach(u.Elem(), out, depth+1)
	case *types.Struct:
		for i := 0; i < u.NumFields(); i++ {
			typeReach(u.Field(i).Type(), out, depth+1)
		}
	case *types.Slice:
		typeReach(u.Elem(), out, depth+1)
	case *types.Array:
		typeReach(u.Elem(), out, depth+1)
	case *types.Map:
		out["m:"+typeKey(u.Key())+":"+typeKey(u.Elem())] = true
		typeReach(u.Key(), out, depth+1)
		typeReach(u.Elem(), out, depth+1)
	case *types.Chan:
		typeReach(u.Elem(), out, depth+1)
	}
}
