package main

// VC: the growing verification-condition context of one function: fresh
// declarations, guarded assumptions and the obligations generated so far.

import (
	"fmt"
	"regexp"
	"go/token"
	"sort"
	"strings"
)

type Obligation struct {
	Func   string // function under contract this obligation belongs to
	Kind   string // pre, post, inv-init, inv-keep, lockinv, safety/nil, ...
	Label  string
	Name   string // stable name
	Tags   []string
	Pos    token.Position
	nDecl  int
	nAss   int
	PC     Term
	Goal   Term
	vc     *VC
	Mode   string
	Strings bool // use SMT string theory for Str
	SplitVar string // case split: SMT constant whose low SplitBits bits are enumerated
	SplitBits int
	splitVal  int // current case (set by the discharger)
	Cases    int
	FailedCases int
	// real-code replay (pure functions): the clause over the entry values and free result constants
	ReplayGoal  *Term
	Replay      *replayInfo
	ExtraAsserts []string
	ReplayClause *replayClause // the whole ensures clause as written, for concrete evaluation on the real output
	Stale        string // the loop contract this obligation comes from is out of date (header changed): a failure is undecided

	// results
	Result  string // unsat (discharged) | sat | unknown | timeout
	Solver  string
	Ms      int64
	Model   string
	Outputs map[string]string
	Trivial bool
}

type VC struct {
	baseDecls []string // heap base values etc.: never truncated by dry runs
	decls   []string
	assumes []string
	n       int
	lits    map[string]Term // string literal -> const
	litList []string
	errVars map[string]Term
	extraPrelude []string // spec function declarations / axioms (set by Exec)
	obls    []*Obligation
	silent  int
	seenDecl map[string]bool
}

func newVC() *VC {
	return &VC{lits: map[string]Term{}, errVars: map[string]Term{}, seenDecl: map[string]bool{}}
}

func sanitize(s string) string {
	var b strings.Builder
	for _, r := range s {
		switch {
		case r >= 'a' && r <= 'z', r >= 'A' && r <= 'Z', r >= '0' && r <= '9', r == '_', r == '.', r == '$':
			b.WriteRune(r)
		default:
			b.WriteByte('_')
		}
	}
	if b.Len() > 40 {
		return b.String()[:40]
	}
	return b.String()
}

func (vc *VC) fresh(hint string, s *Sort) Term {
	vc.n++
	name := fmt.Sprintf("%s!%d", sanitize(hint), vc.n)
	vc.decls = append(vc.decls, fmt.Sprintf("(declare-const %s %s)", name, s))
	return Term{name, s}
}

func (vc *VC) freshBase(hint string, s *Sort) Term {
	vc.n++
	name := fmt.Sprintf("%s!%d", sanitize(hint), vc.n)
	vc.baseDecls = append(vc.baseDecls, fmt.Sprintf("(declare-const %s %s)", name, s))
	return Term{name, s}
}

// declare a named constant/function once (e.g. glob!x)
func (vc *VC) declareOnce(name string, decl string) {
	if vc.seenDecl[name] {
		return
	}
	vc.seenDecl[name] = true
	vc.decls = append(vc.decls, decl)
}

func (vc *VC) assume(t Term) {
	if t.S == "true" {
		return
	}
	if t.T.K != SBool {
		panic("assume non-bool " + t.S)
	}
	vc.assumes = append(vc.assumes, t.S)
}

// name gives a long term a short alias (definitional extension).
func (vc *VC) name(hint string, t Term) Term {
	// merged arrays are always named: E-matching triggers of the form (select A i) must see a constant
	if len(t.S) < 120 && !(t.T.K == SArr && strings.HasPrefix(t.S, "(ite ")) {
		return t
	}
	c := vc.fresh(hint, t.T)
	vc.assumes = append(vc.assumes, "(= "+c.S+" "+t.S+")")
	return c
}

func (vc *VC) nameV(hint string, v Value) Value {
	switch x := v.(type) {
	case Term:
		return vc.name(hint, x)
	case *StructV:
		n := &StructV{Names: x.Names, F: make([]Value, len(x.F))}
		for i, f := range x.F {
			n.F[i] = vc.nameV(hint+"."+x.Names[i], f)
		}
		return n
	}
	return v
}

func (vc *VC) strLit(s string) Term {
	if s == "" {
		return Term{"str.empty", sortStr}
	}
	if t, ok := vc.lits[s]; ok {
		return t
	}
	vc.n++
	name := fmt.Sprintf("lit!%d", vc.n)
	t := Term{name, sortStr}
	vc.lits[s] = t
	vc.litList = append(vc.litList, s)
	vc.baseDecls = append(vc.baseDecls, fmt.Sprintf("(declare-const %s Str) ; %q", name, s))
	return t
}

func (vc *VC) errVar(name string) Term {
	if t, ok := vc.errVars[name]; ok {
		return t
	}
	cn := "errv!" + sanitize(name)
	t := Term{cn, sortErr}
	vc.errVars[name] = t
	vc.baseDecls = append(vc.baseDecls, fmt.Sprintf("(declare-const %s Err)", cn))
	return t
}

func (vc *VC) addObligation(o *Obligation) {
	if vc.silent > 0 {
		return
	}
	o.nDecl = len(vc.decls)
	o.nAss = len(vc.assumes)
	o.vc = vc
	vc.obls = append(vc.obls, o)
}

// Query renders the SMT-LIB text for an obligation (check-sat of the negation).
func (o *Obligation) Query(withModel bool) string {
	vc := o.vc
	var b strings.Builder
	if withModel {
		b.WriteString("(set-option :produce-models true)\n")
	}
	b.WriteString("(set-logic ALL)\n")
	pre := preludeSMT
	if o.Strings {
		pre = strings.Replace(pre, "(declare-sort Str 0)", "(define-sort Str () String)", 1)
		pre = strings.Replace(pre, "(declare-const str.empty Str)", "(define-fun str.empty () Str \"\")", 1)
		pre = strings.Replace(pre, "(declare-fun str.cat (Str Str) Str)", "(define-fun str.cat ((a Str) (b Str)) Str (str.++ a b))", 1)
	}
	b.WriteString(pre)
	for _, l := range vc.extraPrelude {
		if o.Strings {
			switch {
			case strings.HasPrefix(l, "(declare-fun strlen "):
				l = "(define-fun strlen ((s String)) (_ BitVec 64) ((_ int2bv 64) (str.len s)))"
			case strings.HasPrefix(l, "(declare-fun strsub "):
				l = "(define-fun strsub ((s String) (lo (_ BitVec 64)) (hi (_ BitVec 64))) String (str.substr s (bv2nat lo) (- (bv2nat hi) (bv2nat lo))))"
			case strings.HasPrefix(l, "(declare-fun strcontains "):
				l = "(define-fun strcontains ((s String) (t String)) Bool (str.contains s t))"
			}
		}
		b.WriteString(l)
		b.WriteByte('\n')
	}
	splitDecl := func(d string) (string, bool) {
		if o.SplitVar == "" || !strings.HasPrefix(d, "(declare-const "+o.SplitVar+" ") {
			return d, false
		}
		// (declare-const name (_ BitVec W))
		var w int
		i := strings.Index(d, "(_ BitVec ")
		fmt.Sscanf(d[i:], "(_ BitVec %d)", &w)
		hi := w - o.SplitBits
		return fmt.Sprintf("(declare-const %s.hi (_ BitVec %d))\n(define-fun %s () (_ BitVec %d) (concat %s.hi (_ bv%d %d)))", o.SplitVar, hi, o.SplitVar, w, o.SplitVar, o.splitVal, o.SplitBits), true
	}
	{
		var zs []string
		zeroArrDecls.Range(func(k, v interface{}) bool { zs = append(zs, v.(string)); return true })
		sort.Strings(zs)
		for _, z := range zs {
			b.WriteString(z)
			b.WriteByte('\n')
		}
	}
	for _, d := range vc.baseDecls {
		if o.Strings && strings.HasPrefix(d, "(declare-const lit!") {
			// literal becomes a defined string
			i := strings.Index(d, " ; ")
			name := strings.Fields(d)[1]
			b.WriteString(fmt.Sprintf("(define-fun %s () Str %s)\n", name, smtStringLit(unquoteGo(d[i+3:]))))
			continue
		}
		d, _ = splitDecl(d)
		b.WriteString(d)
		b.WriteByte('\n')
	}
	for _, d := range vc.decls[:o.nDecl] {
		d, _ = splitDecl(d)
		b.WriteString(d)
		b.WriteByte('\n')
	}
	// distinctness of literals and named errors
	if !o.Strings {
		var ls []string
		for _, d := range vc.baseDecls {
			if strings.HasPrefix(d, "(declare-const lit!") {
				ls = append(ls, strings.Fields(d)[1])
			}
		}
		ls = append(ls, "str.empty")
		if len(ls) > 1 {
			b.WriteString("(assert (distinct " + strings.Join(ls, " ") + "))\n")
		}
	}
	var es []string
	for _, d := range vc.baseDecls {
		if strings.HasPrefix(d, "(declare-const errv!") {
			es = append(es, strings.Fields(d)[1])
		}
	}
	sort.Strings(es)
	es = append(es, "err.nil")
	if len(es) > 1 {
		b.WriteString("(assert (distinct " + strings.Join(es, " ") + "))\n")
	}
	for _, e := range es {
		if e != "err.nil" {
			b.WriteString("(assert (errIs " + e + " " + e + "))\n")
		}
	}
	{
		// errors made from errno values: never nil, never one of the named errors, injective (ground instances)
		seen := map[string]bool{}
		var hay strings.Builder
		for _, a := range vc.assumes[:o.nAss] {
			hay.WriteString(a)
			hay.WriteByte('\n')
		}
		hay.WriteString(o.PC.S)
		hay.WriteString(o.Goal.S)
		first := true
		for _, m := range errnoRe.FindAllStringSubmatch(hay.String(), -1) {
			if seen[m[0]] {
				continue
			}
			seen[m[0]] = true
			if first {
				b.WriteString("(declare-fun errno.inv (Err) (_ BitVec 64))\n")
				first = false
			}
			var cs []string
			cs = append(cs, "(= (errno.inv "+m[0]+") "+m[1]+")")
			for _, e := range es {
				cs = append(cs, "(not (= "+m[0]+" "+e+"))")
				if e != "err.nil" {
					cs = append(cs, "(not (errIs "+m[0]+" "+e+"))")
				}
			}
			b.WriteString("(assert (and " + strings.Join(cs, " ") + "))\n")
		}
	}
	for _, a := range vc.assumes[:o.nAss] {
		b.WriteString("(assert ")
		b.WriteString(a)
		b.WriteString(")\n")
	}
	for _, e := range o.ExtraAsserts {
		b.WriteString("(assert " + e + ")\n")
	}
	b.WriteString("(assert " + o.PC.S + ")\n")
	b.WriteString("(assert (not " + o.Goal.S + "))\n")
	b.WriteString("(check-sat)\n")
	if withModel {
		b.WriteString("(get-model)\n")
	}
	return b.String()
}

var errnoRe = regexp.MustCompile(`\(errno\.bv ([^() ]+|\([^()]*\))\)`)

func unquoteGo(s string) string {
	var out string
	_, err := fmt.Sscanf(s, "%q", &out)
	if err != nil {
		return s
	}
	return out
}

func smtStringLit(s string) string {
	var b strings.Builder
	b.WriteByte('"')
	for _, r := range []byte(s) {
		switch {
		case r == '"':
			b.WriteString(`""`)
		case r >= 0x20 && r < 0x7f && r != '\\':
			b.WriteByte(r)
		default:
			b.WriteString(fmt.Sprintf("\\u{%x}", r))
		}
	}
	b.WriteByte('"')
	return b.String()
}
