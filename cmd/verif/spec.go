package main

// Evaluation of contract expressions (Go expression syntax + spec builtins)
// against symbolic states.

import (
	"bytes"
	"fmt"
	"go/ast"
	"go/constant"
	"go/printer"
	"go/token"
	"go/types"
	"strconv"
	"strings"
)

type TV struct {
	V Value
	T types.Type // nil for spec-only values
}

type SpecEnv struct {
	x          *Exec
	vars       map[string]TV
	lets       map[string]ast.Expr
	st, old    *State
	loopIdxKey string
	loopIdxVar types.Object
	visitedKey string
	loopVar    types.Object
	loopEntry  *State // state on entry to the innermost loop under specification (for atLoop)
	topFrame   bool      // resolve locals and lets in the frame of the function under verification (call-site clauses met inside an inlined helper)
	frameFn    *FuncInfo // for resolving locals by name
	frameLit   ast.Node
	noLocals   bool
}

func (e *SpecEnv) withState(st *State) *SpecEnv {
	n := *e
	n.st = st
	return &n
}

func exprStr(e ast.Expr) string {
	var b bytes.Buffer
	printer.Fprint(&b, token.NewFileSet(), e)
	s := b.String()
	s = strings.ReplaceAll(s, "__imp", "imp")
	s = strings.ReplaceAll(s, "__iff", "iff")
	return s
}

type goalPart struct {
	t   Term
	sub string
}

func (g goalPart) label(base string) string {
	if g.sub == "" || g.sub == base {
		return base
	}
	s := g.sub
	if len(s) > 90 {
		s = s[:90] + "…"
	}
	return base + " :: " + s
}

// specConjuncts splits a goal into its conjuncts (through &&, predicate
// expansion and the consequent of implications) so each becomes its own query.
func (x *Exec) specConjuncts(e ast.Expr, env *SpecEnv) []goalPart {
	var out []goalPart
	var walk func(e ast.Expr, env *SpecEnv, hyps []Term, top bool)
	walk = func(e ast.Expr, env *SpecEnv, hyps []Term, top bool) {
		e = unparen(e)
		if b, ok := e.(*ast.BinaryExpr); ok && b.Op == token.LAND {
			walk(b.X, env, hyps, false)
			walk(b.Y, env, hyps, false)
			return
		}
		if c, ok := e.(*ast.CallExpr); ok {
			if id, ok := c.Fun.(*ast.Ident); ok {
				if id.Name == "__imp" && len(c.Args) == 2 {
					h := x.specTerm(c.Args[0], env)
					walk(c.Args[1], env, append(append([]Term(nil), hyps...), h), false)
					return
				}
				if pd, ok := x.prog.Contracts.Preds[id.Name]; ok {
					penv := x.predEnv(pd, c, env)
					walk(pd.Body, penv, hyps, false)
					return
				}
			}
		}
		t := x.specTerm(e, env)
		sub := ""
		if !top {
			sub = exprStr(e)
		}
		out = append(out, goalPart{t: tImp(tAnd(hyps...), t), sub: sub})
	}
	walk(e, env, nil, true)
	return out
}

func (x *Exec) predEnv(pd *PredDef, c *ast.CallExpr, env *SpecEnv) *SpecEnv {
	if len(c.Args) != len(pd.Params) {
		panic(fmt.Sprintf("pred %s: %d args for %d params", pd.Name, len(c.Args), len(pd.Params)))
	}
	n := *env
	n.vars = map[string]TV{}
	n.lets = nil
	n.noLocals = true
	for i, p := range pd.Params {
		v := x.specValue(c.Args[i], env)
		if cv, ok := v.V.(ConstV); ok {
			if s := x.specSort(p.Type); s != nil {
				v = TV{V: x.constToSort(cv, s)}
			}
		}
		if p.Type != "" {
			if v.T == nil {
				v.T = x.resolveGoType(p.Type)
			} else if _, isIface := v.T.Underlying().(*types.Interface); isIface && !isErrorType(v.T) {
				// an interface value passed where the predicate expects a concrete pointer: viewed as that type
				if ct := x.resolveGoType(p.Type); ct != nil {
					v.T = ct
				}
			}
		}
		n.vars[p.Name] = v
	}
	return &n
}

func (x *Exec) specTerm(e ast.Expr, env *SpecEnv) Term {
	v := x.specValue(e, env)
	if c, ok := v.V.(ConstV); ok && c.V.Kind() == constant.Bool {
		return boolTerm(constant.BoolVal(c.V))
	}
	t, ok := v.V.(Term)
	if !ok {
		panic(fmt.Sprintf("spec expression %s is not a term (%T)", exprStr(e), v.V))
	}
	return t
}

// resolveGoType evaluates a Go type expression in the scope of the function under verification.
func (x *Exec) resolveGoType(src string) types.Type {
	pos := token.NoPos
	if x.top != nil {
		pos = x.top.Decl.Pos()
	}
	tv, err := types.Eval(x.prog.Fset, x.pkg.Types, pos, src)
	if err != nil || !tv.IsType() {
		return nil
	}
	return tv.Type
}

// specSort: sort named in the spec language.
func (x *Exec) specSort(name string) *Sort {
	defer func() { recover() }()
	return x.parseGhostSort(name)
}

func (x *Exec) lookupLocal(name string, env *SpecEnv) (TV, bool) {
	if env.noLocals || len(x.frames) == 0 {
		return TV{}, false
	}
	var lo, hi token.Pos
	fr := x.frame()
	// use the outermost named function enclosing the current frames' closures
	for i := len(x.frames) - 1; i >= 0; i-- {
		if x.frames[i].fi != nil {
			fr = x.frames[i]
			break
		}
	}
	if env.topFrame && x.frames[0].fi != nil {
		fr = x.frames[0]
	}
	if fr.fi == nil {
		return TV{}, false
	}
	lo, hi = fr.fi.Decl.Pos(), fr.fi.Decl.End()
	var best types.Object
	for o := range env.st.vars {
		if o.Name() == name && o.Pos() >= lo && o.Pos() <= hi {
			if best == nil || o.Pos() > best.Pos() {
				best = o
			}
		}
	}
	if best == nil && fr.contract != nil {
		// renaming-robust fallbacks declared by the contract:
		// (1) a parameter named positionally in the func directive denotes that parameter whatever it is called now
		sig := fr.fi.Obj.Type().(*types.Signature)
		_, ps, _ := x.paramObjs(fr.fi.Decl.Type, fr.fi.Decl.Recv)
		for i, pn := range fr.contract.ParamNames {
			if pn == name && i < len(ps) && ps[i] != nil && i < sig.Params().Len() {
				if v, ok := env.st.vars[ps[i]]; ok {
					return TV{V: v, T: ps[i].Type()}, true
				}
			}
		}
		// (2) `local <name> <type>`: the unique local of that type
		for _, ld := range fr.contract.Locals {
			if ld.Name != name {
				continue
			}
			want := x.resolveGoType(ld.Type)
			if want == nil {
				continue
			}
			var cands []types.Object
			for o := range env.st.vars {
				if o.Pos() >= lo && o.Pos() <= hi && types.Identical(o.Type(), want) {
					cands = append(cands, o)
				}
			}
			if len(cands) == 0 {
				continue
			}
			same := true
			for _, c := range cands[1:] {
				if !vSame(env.st.vars[c], env.st.vars[cands[0]]) {
					same = false
				}
			}
			if same {
				return TV{V: env.st.vars[cands[0]], T: cands[0].Type()}, true
			}
		}
	}
	if best == nil {
		return TV{}, false
	}
	return TV{V: env.st.vars[best], T: best.Type()}, true
}

func (x *Exec) specValue(e ast.Expr, env *SpecEnv) TV {
	switch e := e.(type) {
	case *ast.ParenExpr:
		return x.specValue(e.X, env)
	case *ast.BasicLit:
		switch e.Kind {
		case token.INT:
			return TV{V: ConstV{constant.MakeFromLiteral(e.Value, token.INT, 0)}}
		case token.STRING:
			s, _ := strconv.Unquote(e.Value)
			return TV{V: x.vc.strLit(s), T: types.Typ[types.String]}
		case token.CHAR:
			return TV{V: ConstV{constant.MakeFromLiteral(e.Value, token.CHAR, 0)}}
		}
	case *ast.Ident:
		return x.specIdent(e, env)
	case *ast.SelectorExpr:
		return x.specSelector(e, env)
	case *ast.IndexExpr:
		base := x.specValue(e.X, env)
		idx := x.specValue(e.Index, env)
		return x.capture(x.specIndex(base, idx, e), env)
	case *ast.SliceExpr:
		base := x.specValue(e.X, env)
		is := x.idxSort()
		var arr Value
		var off, ln Term
		switch bv := base.V.(type) {
		case *StructV:
			if !isSlice(bv) {
				panic("spec: slice of a struct value")
			}
			arr, off, ln = bv.get("$arr"), bv.get("$off").(Term), bv.get("$len").(Term)
		case Term:
			at, ok := base.T.Underlying().(*types.Array)
			if !ok {
				panic("spec: slice expression on " + exprStr(e))
			}
			arr, off, ln = bv, zeroOf(is), x.constOfSort(at.Len(), is)
		default:
			panic("spec: slice expression on " + exprStr(e))
		}
		low, high := zeroOf(is), ln
		if e.Low != nil {
			low = x.coerceTo(x.specValue(e.Low, env), is)
		}
		if e.High != nil {
			high = x.coerceTo(x.specValue(e.High, env), is)
		}
		var st types.Type
		if base.T != nil {
			switch u := base.T.Underlying().(type) {
			case *types.Array:
				st = types.NewSlice(u.Elem())
			case *types.Slice:
				st = base.T
			}
		}
		return TV{V: &StructV{Names: []string{"$arr", "$off", "$len"}, F: []Value{arr, x.addIdx(off, low), x.subIdx(high, low)}}, T: st}
	case *ast.StarExpr:
		base := x.specValue(e.X, env)
		pt, ok := base.T.Underlying().(*types.Pointer)
		if !ok {
			panic("spec: deref of non-pointer " + exprStr(e))
		}
		if pl, isPL := base.V.(PtrLocalV); isPL {
			// pointer to a local of a caller (an inlined helper was given &buf)
			if v, ok := env.st.vars[pl.Obj]; ok {
				return TV{V: v, T: pt.Elem()}
			}
			panic(unsupported{"spec: deref of a pointer to a local that is not in scope: " + exprStr(e)})
		}
		if _, isStruct := pt.Elem().Underlying().(*types.Struct); isStruct {
			return TV{V: x.specLoadStruct(pt.Elem(), base.V.(Term), env), T: pt.Elem()}
		}
		return TV{V: vSel(x.getHeap(env.st, x.boxKey(pt.Elem())), base.V.(Term)), T: pt.Elem()}
	case *ast.UnaryExpr:
		v := x.specValue(e.X, env)
		switch e.Op {
		case token.NOT:
			return TV{V: tNot(x.asBool(v)), T: types.Typ[types.Bool]}
		case token.SUB:
			if c, ok := v.V.(ConstV); ok {
				return TV{V: ConstV{constant.UnaryOp(token.SUB, c.V, 0)}}
			}
			t := v.V.(Term)
			if t.T.K == SBV {
				return TV{V: mk(t.T, "bvneg", t), T: v.T}
			}
			return TV{V: mk(t.T, "-", t), T: v.T}
		case token.XOR:
			if c, ok := v.V.(ConstV); ok {
				return TV{V: ConstV{constant.UnaryOp(token.XOR, c.V, 0)}}
			}
			t := v.V.(Term)
			return TV{V: mk(t.T, "bvnot", t), T: v.T}
		}
	case *ast.BinaryExpr:
		return x.specBinary(e, env)
	case *ast.CallExpr:
		return x.specCall(e, env)
	case *ast.CompositeLit:
		return x.specCompositeLit(e, env)
	}
	panic(fmt.Sprintf("spec: unsupported expression %s (%T)", exprStr(e), e))
}

func (x *Exec) asBool(v TV) Term {
	if c, ok := v.V.(ConstV); ok {
		return boolTerm(constant.BoolVal(c.V))
	}
	return v.V.(Term)
}

func (x *Exec) specIdent(e *ast.Ident, env *SpecEnv) TV {
	name := e.Name
	if v, ok := env.vars[name]; ok {
		return v
	}
	if le, ok := env.lets[name]; ok {
		// inside a let, the parameters of the function under verification denote their entry values
		// (a local or loop variable of the same name must not capture them)
		if !env.noLocals && x.entry != nil && x.top != nil && x.inTopOrItsClosure() {
			n := *env
			n.vars = copyVars(env.vars)
			_, ps, _ := x.paramObjs(x.top.Decl.Type, x.top.Decl.Recv)
			for _, po := range ps {
				if po == nil {
					continue
				}
				if v, ok := x.entry.vars[po]; ok {
					if _, bound := n.vars[po.Name()]; !bound {
						n.vars[po.Name()] = x.capture(TV{V: v, T: po.Type()}, &SpecEnv{x: x, st: x.entry})
					}
				}
			}
			return x.specValue(le, &n)
		}
		return x.specValue(le, env)
	}
	switch name {
	case "true":
		return TV{V: tTrue, T: types.Typ[types.Bool]}
	case "false":
		return TV{V: tFalse, T: types.Typ[types.Bool]}
	case "nil":
		return TV{V: ConstV{constant.MakeInt64(0)}, T: types.Typ[types.UntypedNil]}
	case "loopIdx":
		if env.loopIdxKey == "" && env.loopIdxVar != nil {
			// an index loop `for i := 0; i < n; i++` written where the contract expected `for i := range`: the counter is the index
			if v, ok := env.st.vars[env.loopIdxVar]; ok {
				return TV{V: v, T: types.Typ[types.Int]}
			}
		}
		if env.loopIdxKey == "" {
			panic("spec: loopIdx outside an indexed loop")
		}
		return TV{V: x.getHeap(env.st, env.loopIdxKey), T: types.Typ[types.Int]}
	case "loopvar":
		if env.loopVar == nil {
			panic("spec: loopvar: no unique local is both tested in the loop condition and assigned in the loop")
		}
		return TV{V: env.st.vars[env.loopVar], T: env.loopVar.Type()}
	case "visited":
		if env.visitedKey == "" {
			panic("spec: visited outside a map range loop")
		}
		return TV{V: x.getHeap(env.st, env.visitedKey)}
	}
	if b, ok := x.modeFlags[name]; ok {
		return TV{V: boolTerm(b), T: types.Typ[types.Bool]}
	}
	if v, ok := x.lookupLocal(name, env); ok {
		return x.capture(v, env) // locals shadow ghost globals of the same name
	}
	if g, ok := x.prog.Contracts.Ghosts[name]; ok && g.Owner == "" {
		return TV{V: x.getHeap(env.st, x.ghostKey(name))}
	}
	if _, ok := x.heapMakers["gv:"+name]; ok {
		return TV{V: x.getHeap(env.st, "gv:"+name)}
	}
	if v, ok := x.lookupLocal(name, env); ok {
		return x.capture(v, env)
	}
	// package scope
	if obj := x.pkg.Types.Scope().Lookup(name); obj != nil {
		return x.specObject(obj, env)
	}
	if obj := types.Universe.Lookup(name); obj != nil {
		if c, ok := obj.(*types.Const); ok {
			return TV{V: ConstV{c.Val()}}
		}
	}
	panic("spec: unknown identifier " + name)
}

func (x *Exec) specObject(obj types.Object, env *SpecEnv) TV {
	switch o := obj.(type) {
	case *types.Const:
		if s := x.scalarSort(o.Type()); s != nil {
			if b, ok := o.Type().Underlying().(*types.Basic); ok && b.Info()&types.IsUntyped != 0 {
				return TV{V: ConstV{o.Val()}}
			}
			return TV{V: x.constValue(o.Val(), o.Type()), T: o.Type()}
		}
		return TV{V: ConstV{o.Val()}}
	case *types.Var:
		return x.capture(TV{V: x.getHeap(env.st, x.globalKey(o)), T: o.Type()}, env)
	}
	panic("spec: unsupported object " + obj.Name())
}

// capture turns map-typed references into their contents in the state of evaluation.
func (x *Exec) capture(v TV, env *SpecEnv) TV {
	if v.T == nil {
		return v
	}
	if mt, ok := v.T.Underlying().(*types.Map); ok {
		if ref, ok := v.V.(Term); ok {
			hasKey, valKey := x.mapKeys(mt)
			return TV{V: MapC{Ref: ref, Has: tSelect(x.getHeap(env.st, hasKey).(Term), ref), Val: vSel(x.getHeap(env.st, valKey), ref), KeyT: mt.Key(), ValT: mt.Elem()}, T: v.T}
		}
	}
	return v
}

func (x *Exec) importedPkg(name string) *types.Package {
	for _, imp := range x.pkg.Types.Imports() {
		if imp.Name() == name {
			return imp
		}
	}
	return nil
}

func (x *Exec) specSelector(e *ast.SelectorExpr, env *SpecEnv) TV {
	if id, ok := e.X.(*ast.Ident); ok {
		if _, isVar := env.vars[id.Name]; !isVar {
			if _, isLet := env.lets[id.Name]; !isLet {
				if _, isLocal := x.lookupLocal(id.Name, env); !isLocal {
					if p := x.importedPkg(id.Name); p != nil {
						obj := p.Scope().Lookup(e.Sel.Name)
						if obj == nil {
							panic("spec: " + id.Name + "." + e.Sel.Name + " not found")
						}
						return x.specObject(obj, env)
					}
				}
			}
		}
	}
	base := x.specValue(e.X, env)
	if base.T == nil {
		panic("spec: selector on untyped value " + exprStr(e))
	}
	// ghost field?
	if g, ok := x.prog.Contracts.Ghosts[structName(base.T)+"."+e.Sel.Name]; ok {
		_ = g
		return TV{V: tSelect(x.getHeap(env.st, x.ghostKey(structName(base.T)+"."+e.Sel.Name)).(Term), base.V.(Term))}
	}
	base.T = x.viewIface(base.T, e.X, env)
	obj, idx, _ := types.LookupFieldOrMethod(base.T, true, x.pkg.Types, e.Sel.Name)
	f, ok := obj.(*types.Var)
	if !ok {
		panic("spec: no field " + e.Sel.Name + " in " + base.T.String())
	}
	cur, curT := base.V, base.T
	for _, i := range idx {
		if p, ok := curT.Underlying().(*types.Pointer); ok {
			stt := p.Elem().Underlying().(*types.Struct)
			fl := stt.Field(i)
			ref, isRef := cur.(Term)
			if !isRef {
				panic("spec: field of non-reference " + exprStr(e))
			}
			cur, curT = vSel(x.getHeap(env.st, x.fieldKey(p.Elem(), fl)), ref), fl.Type()
			continue
		}
		stt := curT.Underlying().(*types.Struct)
		fl := stt.Field(i)
		cur, curT = cur.(*StructV).get(fl.Name()), fl.Type()
	}
	return x.capture(TV{V: cur, T: f.Type()}, env)
}

func (x *Exec) specLoadStruct(t types.Type, ref Term, env *SpecEnv) Value {
	stt := t.Underlying().(*types.Struct)
	sv := &StructV{}
	for i := 0; i < stt.NumFields(); i++ {
		f := stt.Field(i)
		if x.skipField(f) {
			continue
		}
		sv.Names = append(sv.Names, f.Name())
		sv.F = append(sv.F, vSel(x.getHeap(env.st, x.fieldKey(t, f)), ref))
	}
	return sv
}

func (x *Exec) specIndex(base, idx TV, e ast.Expr) TV {
	switch b := base.V.(type) {
	case MapC:
		k := x.coerceTo(idx, x.scalarSort(b.KeyT))
		has := tSelect(b.Has, k)
		v := vSel(b.Val, k)
		return TV{V: vIte(has, v, x.zeroValue(b.ValT)), T: b.ValT}
	case Term:
		if b.T.K == SArr {
			k := x.coerceTo(idx, b.T.Idx)
			var et types.Type
			if base.T != nil {
				switch u := base.T.Underlying().(type) {
				case *types.Array:
					et = u.Elem()
				}
			}
			return TV{V: tSelect(b, k), T: et}
		}
	case *StructV:
		if isSlice(b) {
			k := x.coerceTo(idx, x.idxSort())
			var et types.Type
			if base.T != nil {
				et = base.T.Underlying().(*types.Slice).Elem()
			}
			return TV{V: vSel(b.get("$arr"), x.addIdx(b.get("$off").(Term), k)), T: et}
		}
		// lifted array of structs
		k := x.coerceTo(idx, x.idxSort())
		var et types.Type
		if base.T != nil {
			if at, ok := base.T.Underlying().(*types.Array); ok {
				et = at.Elem()
			}
		}
		return TV{V: vSel(b, k), T: et}
	}
	panic("spec: cannot index " + exprStr(e))
}

// coerceTo makes a TV a term of the wanted sort (constants adapt; bit-vectors are resized).
func (x *Exec) coerceTo(v TV, s *Sort) Term {
	if c, ok := v.V.(ConstV); ok {
		return x.constToSort(c, s)
	}
	t, ok := v.V.(Term)
	if !ok {
		panic(fmt.Sprintf("spec: expected a term, got %T", v.V))
	}
	if t.T.Eq(s) {
		return t
	}
	if t.T.K == SBV && s.K == SBV {
		return bvResize(t, s.W, v.T != nil && isSigned(v.T))
	}
	if t.T.isIntLike() && s.isIntLike() {
		t.T = s
		return t
	}
	panic(fmt.Sprintf("spec: cannot use %s : %s as %s", t.S, t.T, s))
}

// unify two operands: constants take the sort of their peer.
func (x *Exec) unify(a, b TV) (TV, TV) {
	ca, aIsC := a.V.(ConstV)
	cb, bIsC := b.V.(ConstV)
	switch {
	case aIsC && bIsC:
		return a, b
	case aIsC:
		if bt, ok := b.V.(Term); ok {
			return TV{V: x.constToSort(ca, bt.T), T: b.T}, b
		}
		if mc, ok := b.V.(MapC); ok {
			return TV{V: x.constToSort(ca, sortRef)}, TV{V: mc.Ref}
		}
	case bIsC:
		if at, ok := a.V.(Term); ok {
			return a, TV{V: x.constToSort(cb, at.T), T: a.T}
		}
		if mc, ok := a.V.(MapC); ok {
			return TV{V: mc.Ref}, TV{V: x.constToSort(cb, sortRef)}
		}
	}
	at, aok := a.V.(Term)
	bt, bok := b.V.(Term)
	if aok && bok && !at.T.Eq(bt.T) && at.T.K == SBV && bt.T.K == SBV {
		w := at.T.W
		if bt.T.W > w {
			w = bt.T.W
		}
		return TV{V: bvResize(at, w, a.T != nil && isSigned(a.T)), T: a.T}, TV{V: bvResize(bt, w, b.T != nil && isSigned(b.T)), T: b.T}
	}
	return a, b
}

func (x *Exec) specEq(a, b TV) Term {
	a, b = x.unify(a, b)
	switch av := a.V.(type) {
	case ConstV:
		return boolTerm(constant.Compare(av.V, token.EQL, b.V.(ConstV).V))
	case Term:
		return tEq(av, b.V.(Term))
	case *StructV:
		return vEq(av, b.V)
	case MapC:
		bv := b.V.(MapC)
		// same keys, and same values on those keys
		ks := av.Has.T.Idx
		q := Term{"qm", ks}
		valEq := vEq(vSel(av.Val, q), vSel(bv.Val, q))
		return tAnd(tEq(av.Has, bv.Has),
			Term{fmt.Sprintf("(forall ((qm %s)) (! (=> %s %s) :pattern (%s)))", ks, tSelect(av.Has, q).S, valEq.S, firstLeafSelect(vSel(av.Val, q))), sortBool})
	}
	panic(fmt.Sprintf("spec: equality on %T", a.V))
}

func firstLeafSelect(v Value) string {
	s := ""
	vLeaves(v, func(t Term) {
		if s == "" {
			s = t.S
		}
	})
	return s
}

func (x *Exec) specBinary(e *ast.BinaryExpr, env *SpecEnv) TV {
	boolT := types.Typ[types.Bool]
	switch e.Op {
	case token.LAND:
		return TV{V: tAnd(x.specTerm(e.X, env), x.specTerm(e.Y, env)), T: boolT}
	case token.LOR:
		return TV{V: tOr(x.specTerm(e.X, env), x.specTerm(e.Y, env)), T: boolT}
	}
	a := x.specValue(e.X, env)
	b := x.specValue(e.Y, env)
	switch e.Op {
	case token.EQL:
		return TV{V: x.specEq(a, b), T: boolT}
	case token.NEQ:
		return TV{V: tNot(x.specEq(a, b)), T: boolT}
	}
	a, b = x.unify(a, b)
	if ca, ok := a.V.(ConstV); ok {
		cb := b.V.(ConstV)
		switch e.Op {
		case token.LSS, token.LEQ, token.GTR, token.GEQ:
			return TV{V: boolTerm(constant.Compare(ca.V, e.Op, cb.V)), T: boolT}
		case token.SHL, token.SHR:
			n, _ := constant.Uint64Val(cb.V)
			return TV{V: ConstV{constant.Shift(ca.V, e.Op, uint(n))}}
		case token.QUO:
			return TV{V: ConstV{constant.BinaryOp(ca.V, token.QUO_ASSIGN, cb.V)}}
		}
		return TV{V: ConstV{constant.BinaryOp(ca.V, e.Op, cb.V)}}
	}
	l, r := a.V.(Term), b.V.(Term)
	t := a.T
	if t == nil {
		t = b.T
	}
	signed := t != nil && isSigned(t)
	if l.T.K == SBV && t == nil {
		signed = false
	}
	switch l.T.K {
	case SStr:
		if e.Op == token.ADD {
			return TV{V: x.strCat(l, r), T: t}
		}
	case SBV:
		switch e.Op {
		case token.ADD:
			return TV{V: mk(l.T, "bvadd", l, r), T: t}
		case token.SUB:
			return TV{V: mk(l.T, "bvsub", l, r), T: t}
		case token.MUL:
			return TV{V: mk(l.T, "bvmul", l, r), T: t}
		case token.QUO:
			return TV{V: mk(l.T, pick(signed, "bvsdiv", "bvudiv"), l, r), T: t}
		case token.REM:
			return TV{V: mk(l.T, pick(signed, "bvsrem", "bvurem"), l, r), T: t}
		case token.AND:
			return TV{V: mk(l.T, "bvand", l, r), T: t}
		case token.OR:
			return TV{V: mk(l.T, "bvor", l, r), T: t}
		case token.XOR:
			return TV{V: mk(l.T, "bvxor", l, r), T: t}
		case token.AND_NOT:
			return TV{V: mk(l.T, "bvand", l, mk(l.T, "bvnot", r)), T: t}
		case token.SHL:
			return TV{V: mk(l.T, "bvshl", l, bvResize(r, l.T.W, false)), T: t}
		case token.SHR:
			return TV{V: mk(l.T, pick(signed, "bvashr", "bvlshr"), l, bvResize(r, l.T.W, false)), T: t}
		case token.LSS:
			return TV{V: mk(sortBool, pick(signed, "bvslt", "bvult"), l, r), T: boolT}
		case token.LEQ:
			return TV{V: mk(sortBool, pick(signed, "bvsle", "bvule"), l, r), T: boolT}
		case token.GTR:
			return TV{V: mk(sortBool, pick(signed, "bvsgt", "bvugt"), l, r), T: boolT}
		case token.GEQ:
			return TV{V: mk(sortBool, pick(signed, "bvsge", "bvuge"), l, r), T: boolT}
		}
	case SInt, SRef:
		switch e.Op {
		case token.ADD:
			return TV{V: mk(sortInt, "+", l, r), T: t}
		case token.SUB:
			return TV{V: mk(sortInt, "-", l, r), T: t}
		case token.MUL:
			return TV{V: mk(sortInt, "*", l, r), T: t}
		case token.QUO:
			return TV{V: mk(sortInt, "div", l, r), T: t}
		case token.REM:
			return TV{V: mk(sortInt, "mod", l, r), T: t}
		case token.LSS:
			return TV{V: mk(sortBool, "<", l, r), T: boolT}
		case token.LEQ:
			return TV{V: mk(sortBool, "<=", l, r), T: boolT}
		case token.GTR:
			return TV{V: mk(sortBool, ">", l, r), T: boolT}
		case token.GEQ:
			return TV{V: mk(sortBool, ">=", l, r), T: boolT}
		}
	case SBool:
		switch e.Op {
		case token.AND:
			return TV{V: tAnd(l, r), T: boolT}
		case token.OR:
			return TV{V: tOr(l, r), T: boolT}
		}
	}
	panic("spec: operator " + e.Op.String() + " on " + l.T.String() + " in " + exprStr(e))
}

// sexpr is a parsed S-expression (atom or list).
type sexpr struct {
	atom string
	list []*sexpr
	src  string
}

func parseSexpr(s string) *sexpr {
	pos := 0
	var parse func() *sexpr
	parse = func() *sexpr {
		for pos < len(s) && (s[pos] == ' ' || s[pos] == '\n') {
			pos++
		}
		if pos >= len(s) {
			return nil
		}
		start := pos
		if s[pos] == '(' {
			pos++
			n := &sexpr{}
			for {
				for pos < len(s) && (s[pos] == ' ' || s[pos] == '\n') {
					pos++
				}
				if pos >= len(s) {
					break
				}
				if s[pos] == ')' {
					pos++
					break
				}
				c := parse()
				if c == nil {
					break
				}
				n.list = append(n.list, c)
			}
			n.src = s[start:pos]
			return n
		}
		if s[pos] == '"' {
			pos++
			for pos < len(s) && s[pos] != '"' {
				pos++
			}
			pos++
			return &sexpr{atom: s[start:pos], src: s[start:pos]}
		}
		for pos < len(s) && s[pos] != ' ' && s[pos] != ')' && s[pos] != '(' && s[pos] != '\n' {
			pos++
		}
		return &sexpr{atom: s[start:pos], src: s[start:pos]}
	}
	return parse()
}

func (e *sexpr) mentions(q string) bool {
	if e.list == nil {
		return e.atom == q
	}
	for _, c := range e.list {
		if c.mentions(q) {
			return true
		}
	}
	return false
}

// quantPatterns finds (select A idx) subterms where idx mentions the bound
// variable q and A does not: used as instantiation triggers.
func quantPatterns(body, q string) []string {
	root := parseSexpr(body)
	seen := map[string]bool{}
	var out []string
	var walk func(e *sexpr, bound map[string]bool)
	walk = func(e *sexpr, bound map[string]bool) {
		if e == nil || e.list == nil {
			return
		}
		if len(e.list) >= 3 && (e.list[0].atom == "forall" || e.list[0].atom == "exists") {
			nb := map[string]bool{}
			for k := range bound {
				nb[k] = true
			}
			for _, v := range e.list[1].list {
				if len(v.list) > 0 {
					nb[v.list[0].atom] = true
				}
			}
			for _, c := range e.list[2:] {
				walk(c, nb)
			}
			return
		}
		if len(e.list) == 3 && e.list[0].atom == "select" && e.list[2].mentions(q) && !e.list[1].mentions(q) {
			ok := !e.mentions("ite") && !e.mentions("and") && !e.mentions("or") && !e.mentions("not") && !e.mentions("=")
			for b := range bound {
				if e.mentions(b) {
					ok = false
				}
			}
			if ok && !seen[e.src] && len(out) < 6 {
				seen[e.src] = true
				out = append(out, e.src)
			}
		}
		for _, c := range e.list {
			walk(c, bound)
		}
	}
	walk(root, map[string]bool{})
	return out
}

func (x *Exec) specQuant(kind string, c *ast.CallExpr, env *SpecEnv) TV {
	if len(c.Args) != 3 {
		panic("spec: " + kind + "(var, Type, body)")
	}
	name := c.Args[0].(*ast.Ident).Name
	tsrc := exprStr(c.Args[1])
	var s *Sort
	var gt types.Type
	if s = x.specSort(tsrc); s == nil {
		gt = x.resolveGoType(tsrc)
		if gt == nil {
			panic("spec: unknown type " + tsrc)
		}
		s = x.scalarSort(gt)
	} else {
		gt = x.resolveGoType(tsrc)
	}
	x.vc.n++
	qn := fmt.Sprintf("q%d_%s", x.vc.n, name)
	n := *env
	n.vars = copyVars(env.vars)
	n.vars[name] = TV{V: Term{qn, s}, T: gt}
	body := x.specTerm(c.Args[2], &n)
	pats := quantPatterns(body.S, qn)
	ps := ""
	for _, p := range pats {
		ps += " :pattern (" + p + ")"
	}
	if ps != "" {
		return TV{V: Term{fmt.Sprintf("(%s ((%s %s)) (! %s%s))", kind, qn, s, body.S, ps), sortBool}, T: types.Typ[types.Bool]}
	}
	return TV{V: Term{fmt.Sprintf("(%s ((%s %s)) %s)", kind, qn, s, body.S), sortBool}, T: types.Typ[types.Bool]}
}

func (x *Exec) specCall(c *ast.CallExpr, env *SpecEnv) TV {
	boolT := types.Typ[types.Bool]
	// qualified function: pkg.F(args)
	if se, ok := c.Fun.(*ast.SelectorExpr); ok {
		if id, ok := se.X.(*ast.Ident); ok {
			if p := x.importedPkg(id.Name); p != nil {
				if _, shadow := env.vars[id.Name]; !shadow {
					key := p.Name() + "." + se.Sel.Name
					obj := p.Scope().Lookup(se.Sel.Name)
					fn, ok := obj.(*types.Func)
					if !ok {
						panic("spec: " + key + " is not a function")
					}
					var args []Value
					sig := fn.Type().(*types.Signature)
					for i, a := range c.Args {
						v := x.specValue(a, env)
						if cv, ok := v.V.(ConstV); ok {
							v.V = x.constToSort(cv, x.scalarSort(sig.Params().At(i).Type()))
						}
						args = append(args, v.V)
					}
					if key == "errors.Is" {
						a, b := args[0].(Term), args[1].(Term)
						return TV{V: tOr(tAnd(tNe(a, tErrNil), mk(sortBool, "errIs", a, b)), tEq(a, b)), T: boolT}
					}
					return TV{V: x.pureApply(key, sig, args), T: sig.Results().At(0).Type()}
				}
			}
		}
		panic("spec: unsupported call " + exprStr(c))
	}
	id, ok := c.Fun.(*ast.Ident)
	if !ok {
		panic("spec: unsupported call " + exprStr(c))
	}
	arg := func(i int) TV { return x.specValue(c.Args[i], env) }
	switch id.Name {
	case "old":
		if env.old == nil {
			panic("spec: old() not available here: " + exprStr(c))
		}
		n := *env
		n.st = env.old
		return x.specValue(c.Args[0], &n)
	case "incallback":
		// true while the statements of a function literal run as the callback of a modelled external (filepath.WalkDir)
		if x.cbDepth > 0 {
			return TV{V: tTrue, T: boolT}
		}
		return TV{V: tFalse, T: boolT}
	case "atLoop":
		if env.loopEntry == nil {
			panic("spec: atLoop() outside a loop invariant: " + exprStr(c))
		}
		n := *env
		n.st = env.loopEntry
		return x.specValue(c.Args[0], &n)
	case "atIter":
		// the value at the head of the current iteration of the innermost loop under specification
		for i := len(x.loops) - 1; i >= 0; i-- {
			if x.loops[i].head != nil {
				n := *env
				n.st = x.loops[i].head
				return x.specValue(c.Args[0], &n)
			}
		}
		panic("spec: atIter() outside a loop under specification: " + exprStr(c))
	case "__imp":
		return TV{V: tImp(x.specTerm(c.Args[0], env), x.specTerm(c.Args[1], env)), T: boolT}
	case "__iff":
		return TV{V: tEq(x.specTerm(c.Args[0], env), x.specTerm(c.Args[1], env)), T: boolT}
	case "ite":
		cnd := x.specTerm(c.Args[0], env)
		a, b := x.unify(arg(1), arg(2))
		if ca, ok := a.V.(ConstV); ok {
			a = TV{V: x.constToSort(ca, sortInt)}
			b = TV{V: x.constToSort(b.V.(ConstV), sortInt)}
		}
		return TV{V: vIte(cnd, a.V, b.V), T: a.T}
	case "forall", "exists":
		return x.specQuant(id.Name, c, env)
	case "has":
		m := arg(0)
		switch mv := m.V.(type) {
		case MapC:
			return TV{V: tSelect(mv.Has, x.coerceTo(arg(1), mv.Has.T.Idx)), T: boolT}
		case Term:
			if mv.T.K == SArr && mv.T.Elem.K == SBool {
				return TV{V: tSelect(mv, x.coerceTo(arg(1), mv.T.Idx)), T: boolT}
			}
		}
		panic("spec: has() on non-map " + exprStr(c))
	case "len":
		v := arg(0)
		switch vv := v.V.(type) {
		case *StructV:
			if isSlice(vv) {
				return TV{V: vv.get("$len"), T: types.Typ[types.Int]}
			}
		case MapC:
			fn := "card." + sanitize(vv.Has.T.Idx.String())
			x.declSpecFun(fn, []*Sort{vv.Has.T}, x.idxSort())
			return TV{V: mk(x.idxSort(), fn, vv.Has), T: types.Typ[types.Int]}
		case Term:
			if vv.T.K == SStr {
				return TV{V: x.strLen(vv), T: types.Typ[types.Int]}
			}
		}
		panic(fmt.Sprintf("spec: len() of %s (%T)", exprStr(c), v.V))
	case "ref":
		// the reference held by a map-typed expression (map equality in the spec language compares contents)
		v := arg(0)
		if mc, ok := v.V.(MapC); ok {
			return TV{V: mc.Ref}
		}
		return TV{V: v.V.(Term)}
	case "nolocks":
		var cs []Term
		for _, l := range x.lockClasses() {
			cs = append(cs, tNot(x.heldTerm(env.st, l)))
		}
		return TV{V: tAnd(cs...), T: boolT}
	case "didLock":
		return TV{V: x.getHeap(env.st, x.didLockKey(x.specLockClass(c.Args[0], env))), T: boolT}
	case "atLock", "atUnlock":
		n := *env
		n.st = x.shadowState(env.st, strings.ToLower(id.Name)+":")
		return x.specValue(c.Args[0], &n)
	case "held":
		return TV{V: x.heldTerm(env.st, x.specLockClass(c.Args[0], env)), T: boolT}
	case "token":
		return TV{V: x.getHeap(env.st, x.tokKey(c.Args[0].(*ast.Ident).Name)), T: boolT}
	case "closed":
		return TV{V: x.specClosed(c.Args[0], env), T: boolT}
	case "chCap":
		ch := arg(0).V.(Term)
		return TV{V: tSelect(x.getHeap(env.st, x.chKey("chCap", x.idxSort())).(Term), ch), T: types.Typ[types.Int]}
	case "hist":
		cv := arg(0)
		ch := cv.V.(Term)
		ct, ok := cv.T.Underlying().(*types.Chan)
		if !ok {
			panic("spec: hist() of a non-channel")
		}
		return TV{V: tSelect(x.getHeap(env.st, x.chKey("chHist:"+typeKey(ct.Elem()), sortUnint("Hist"))).(Term), ch)}
	case "snoc":
		h := arg(0).V.(Term)
		v := arg(1)
		if cv, ok := v.V.(ConstV); ok {
			v.V = x.constToSort(cv, sortInt)
		}
		return TV{V: x.histSnoc(h, v.V)}
	case "allocated":
		return TV{V: x.allocatedTerm(env.st, arg(0).V.(Term)), T: boolT}
	case "fresh":
		r := arg(0).V.(Term)
		return TV{V: tAnd(x.allocatedTerm(env.st, r), tNot(x.allocatedTerm(env.old, r))), T: boolT}
	case "del":
		m := arg(0)
		switch mv := m.V.(type) {
		case MapC:
			k := x.coerceTo(arg(1), mv.Has.T.Idx)
			return TV{V: MapC{Ref: mv.Ref, Has: tStore(mv.Has, k, tFalse), Val: mv.Val, KeyT: mv.KeyT, ValT: mv.ValT}, T: m.T}
		case Term:
			k := x.coerceTo(arg(1), mv.T.Idx)
			return TV{V: tStore(mv, k, zeroOf(mv.T.Elem))}
		}
	case "set":
		m := arg(0)
		switch mv := m.V.(type) {
		case MapC:
			k := x.coerceTo(arg(1), mv.Has.T.Idx)
			v := arg(2)
			if cv, ok := v.V.(ConstV); ok {
				v.V = x.constToSort(cv, x.scalarSort(mv.ValT))
			}
			return TV{V: MapC{Ref: mv.Ref, Has: tStore(mv.Has, k, tTrue), Val: vSto(mv.Val, k, v.V), KeyT: mv.KeyT, ValT: mv.ValT}, T: m.T}
		case Term:
			k := x.coerceTo(arg(1), mv.T.Idx)
			return TV{V: tStore(mv, k, x.coerceTo(arg(2), mv.T.Elem))}
		}
	case "setAdd":
		s := arg(0).V.(Term)
		return TV{V: tStore(s, x.coerceTo(arg(1), s.T.Idx), tTrue)}
	case "setDel":
		s := arg(0).V.(Term)
		return TV{V: tStore(s, x.coerceTo(arg(1), s.T.Idx), tFalse)}
	case "emptyset":
		panic("spec: use forall to state emptiness")
	case "subset":
		a, b := x.setOf(arg(0)), x.setOf(arg(1))
		q := Term{"qs", a.T.Idx}
		return TV{V: Term{fmt.Sprintf("(forall ((qs %s)) (! (=> %s %s) :pattern (%s) :pattern (%s)))", a.T.Idx, tSelect(a, q).S, tSelect(b, q).S, tSelect(a, q).S, tSelect(b, q).S), sortBool}, T: boolT}
	case "errIs":
		a, b := arg(0).V.(Term), arg(1).V.(Term)
		return TV{V: tOr(tAnd(tNe(a, tErrNil), mk(sortBool, "errIs", a, b)), tEq(a, b)), T: boolT}
	case "errno":
		v := arg(0)
		var t Term
		if cv, ok := v.V.(ConstV); ok {
			t = x.constToSort(cv, sortBV(64))
		} else {
			t = v.V.(Term)
		}
		return TV{V: x.errnoOf(t)}
	case "unchanged":
		n := *env
		n.st = env.old
		var cs []Term
		for _, a := range c.Args {
			cs = append(cs, x.specEq(x.specValue(a, env), x.specValue(a, &n)))
		}
		return TV{V: tAnd(cs...), T: boolT}
	case "cat":
		a, b := arg(0), arg(1)
		return TV{V: x.strCat(a.V.(Term), b.V.(Term)), T: types.Typ[types.String]}
	case "drop":
		// drop(s, n): s without its first n bytes
		sv := arg(0).V.(Term)
		is := x.idxSort()
		x.declSpecFun("strsub", []*Sort{sortStr, is, is}, sortStr)
		return TV{V: mk(sortStr, "strsub", sv, x.coerceTo(arg(1), is), x.strLen(sv)), T: types.Typ[types.String]}
	case "contains":
		a, b := arg(0).V.(Term), arg(1).V.(Term)
		x.declSpecFun("strcontains", []*Sort{sortStr, sortStr}, sortBool)
		return TV{V: mk(sortBool, "strcontains", a, b), T: boolT}
	case "le32":
		// little-endian 32-bit read: le32(arr, off)
		var arr Term
		var base Term
		switch av := arg(0).V.(type) {
		case Term:
			arr = av
		case *StructV:
			arr = av.get("$arr").(Term)
			base = av.get("$off").(Term)
		}
		off := x.coerceTo(arg(1), arr.T.Idx)
		if base.S != "" {
			off = x.addIdx(base, off)
		}
		var bs []string
		for b := 3; b >= 0; b-- {
			bs = append(bs, tSelect(arr, x.addIdx(off, x.constOfSort(int64(b), arr.T.Idx))).S)
		}
		return TV{V: Term{"(concat " + strings.Join(bs, " ") + ")", sortBV(32)}, T: types.Typ[types.Uint32]}
	case "bytes2str":
		arr := arg(0).V.(Term)
		is := x.idxSort()
		x.declSpecFun("bytes2str", []*Sort{arr.T, is, is}, sortStr)
		return TV{V: mk(sortStr, "bytes2str", arr, x.coerceTo(arg(1), is), x.coerceTo(arg(2), is)), T: types.Typ[types.String]}
	case "sprintf":
		var ts []Term
		var ss []*Sort
		for i := range c.Args {
			av := arg(i)
			var t Term
			if cv, ok := av.V.(ConstV); ok {
				t = x.constToSort(cv, x.idxSort())
			} else {
				t = av.V.(Term)
			}
			ts = append(ts, t)
			ss = append(ss, t.T)
		}
		name := fmt.Sprintf("fmt.Sprintf.%d", len(ts))
		for _, s := range ss {
			name += "." + sanitize(s.String())
		}
		x.declSpecFun(name, ss, sortStr)
		return TV{V: mk(sortStr, name, ts...), T: types.Typ[types.String]}
	case "Int":
		// mathematical integer of a bit-vector is not supported (no bv2nat bridges)
		v := arg(0)
		if cv, ok := v.V.(ConstV); ok {
			return TV{V: x.constToSort(cv, sortInt)}
		}
		panic("spec: Int() of a non-constant")
	}
	// predicate
	if pd, ok := x.prog.Contracts.Preds[id.Name]; ok {
		penv := x.predEnv(pd, c, env)
		return x.specValue(pd.Body, penv)
	}
	// uninterpreted spec function
	if sf, ok := x.prog.Contracts.SpecFuns[id.Name]; ok {
		var sorts []*Sort
		var ts []Term
		for i, p := range sf.Params {
			s := x.specSort(p.Type)
			if s == nil {
				panic("spec fun " + sf.Name + ": bad param sort " + p.Type)
			}
			sorts = append(sorts, s)
			ts = append(ts, x.coerceTo(arg(i), s))
		}
		rs := x.specSort(sf.Ret)
		x.declSpecFun("sf."+sf.Name, sorts, rs)
		return TV{V: mk(rs, "sf."+sf.Name, ts...), T: x.resolveGoType(sf.Ret)}
	}
	// conversion
	if s := x.specSort(id.Name); s != nil && len(c.Args) == 1 {
		v := arg(0)
		gt := x.resolveGoType(id.Name)
		if cv, ok := v.V.(ConstV); ok {
			return TV{V: x.constToSort(cv, s), T: gt}
		}
		t := v.V.(Term)
		if t.T.K == SBV && s.K == SBV {
			return TV{V: bvResize(t, s.W, v.T != nil && isSigned(v.T)), T: gt}
		}
		if t.T.Eq(s) {
			return TV{V: t, T: gt}
		}
		panic("spec: conversion " + exprStr(c))
	}
	if gt := x.resolveGoType(id.Name); gt != nil && len(c.Args) == 1 {
		v := arg(0)
		s := x.scalarSort(gt)
		if cv, ok := v.V.(ConstV); ok && s != nil {
			return TV{V: x.constToSort(cv, s), T: gt}
		}
		if t, ok := v.V.(Term); ok && s != nil {
			if t.T.K == SBV && s.K == SBV {
				return TV{V: bvResize(t, s.W, v.T != nil && isSigned(v.T)), T: gt}
			}
			if t.T.Eq(s) {
				return TV{V: t, T: gt}
			}
		}
	}
	panic("spec: unknown function " + id.Name + " in " + exprStr(c))
}

func (x *Exec) setOf(v TV) Term {
	switch s := v.V.(type) {
	case MapC:
		return s.Has
	case Term:
		return s
	}
	panic("spec: not a set")
}

func (x *Exec) specLockClass(e ast.Expr, env *SpecEnv) string {
	se, ok := unparen(e).(*ast.SelectorExpr)
	if !ok {
		panic("spec: held(x.mu)")
	}
	if id, ok := se.X.(*ast.Ident); ok {
		if _, isVar := env.vars[id.Name]; !isVar {
			if _, isLocal := x.lookupLocal(id.Name, env); !isLocal {
				return id.Name + "." + se.Sel.Name
			}
		}
	}
	base := x.specValue(se.X, env)
	_, idx, _ := types.LookupFieldOrMethod(base.T, true, x.pkg.Types, se.Sel.Name)
	t := base.T
	for _, i := range idx[:len(idx)-1] {
		if p, ok := t.Underlying().(*types.Pointer); ok {
			t = p.Elem()
		}
		t = t.Underlying().(*types.Struct).Field(i).Type()
	}
	return structName(t) + "." + se.Sel.Name
}

// viewIface: an interface-typed spec value is viewed as its one implementation (unique in the build, or
// named by an `impl` directive for the field it is read from).
func (x *Exec) viewIface(t types.Type, from ast.Expr, env *SpecEnv) types.Type {
	it, isIface := t.Underlying().(*types.Interface)
	if !isIface || isErrorType(t) {
		return t
	}
	if ct := x.uniqueImpl(it); ct != nil {
		return ct
	}
	if inner, ok := unparen(from).(*ast.SelectorExpr); ok {
		if ib := x.specValue(inner.X, env); ib.T != nil {
			if ct := x.implOfField(structName(ib.T), inner.Sel.Name); ct != nil {
				return ct
			}
		}
	}
	return t
}

func (x *Exec) specClosed(e ast.Expr, env *SpecEnv) Term {
	se, ok := unparen(e).(*ast.SelectorExpr)
	if ok {
		if id, isID := se.X.(*ast.Ident); isID {
			if _, isVar := env.vars[id.Name]; !isVar {
				if _, isLocal := x.lookupLocal(id.Name, env); !isLocal {
					k := id.Name + "." + se.Sel.Name
					if a := x.prog.Contracts.Chans[k]; a != nil && a.ExtClose {
						return x.getHeap(env.st, x.xclosedKey(k)).(Term)
					}
				}
			}
		}
		base := x.specValue(se.X, env)
		if base.T != nil {
			base.T = x.viewIface(base.T, se.X, env)
			_, idx, _ := types.LookupFieldOrMethod(base.T, true, x.pkg.Types, se.Sel.Name)
			if len(idx) > 0 {
				t := base.T
				for _, i := range idx[:len(idx)-1] {
					if p, ok := t.Underlying().(*types.Pointer); ok {
						t = p.Elem()
					}
					t = t.Underlying().(*types.Struct).Field(i).Type()
				}
				k := structName(t) + "." + se.Sel.Name
				if a := x.prog.Contracts.Chans[k]; a != nil && a.ExtClose {
					return x.getHeap(env.st, x.xclosedKey(k)).(Term)
				}
			}
		}
	}
	cv := x.specValue(e, env)
	ch := cv.V.(Term)
	return tSelect(x.getHeap(env.st, x.chClosedKey(cv.T)).(Term), ch)
}

func (x *Exec) specCompositeLit(e *ast.CompositeLit, env *SpecEnv) TV {
	t := x.resolveGoType(exprStr(e.Type))
	if t == nil {
		panic("spec: unknown type in " + exprStr(e))
	}
	stt, ok := t.Underlying().(*types.Struct)
	if !ok {
		panic("spec: composite literal of non-struct")
	}
	sv := x.zeroValue(t).(*StructV)
	for i, el := range e.Elts {
		var f *types.Var
		var ve ast.Expr
		if kv, ok := el.(*ast.KeyValueExpr); ok {
			f = lookupField(stt, kv.Key.(*ast.Ident).Name)
			ve = kv.Value
		} else {
			f = stt.Field(i)
			ve = el
		}
		v := x.specValue(ve, env)
		if cv, ok := v.V.(ConstV); ok {
			v.V = x.constToSort(cv, x.scalarSort(f.Type()))
		}
		sv = sv.with(f.Name(), v.V)
	}
	return TV{V: sv, T: t}
}

// pureApply: deterministic uninterpreted function for a pure external.
func (x *Exec) pureApply(key string, sig *types.Signature, args []Value) Value {
	var sorts []*Sort
	var ts []Term
	for _, a := range args {
		t, ok := a.(Term)
		if !ok {
			panic("pure function " + key + " with composite argument")
		}
		sorts = append(sorts, t.T)
		ts = append(ts, t)
	}
	rs := x.scalarSort(sig.Results().At(0).Type())
	x.declSpecFun("uf."+key, sorts, rs)
	return mk(rs, "uf."+key, ts...)
}

// ---- environments ----

func (x *Exec) frameEnv(st *State) *SpecEnv {
	env := &SpecEnv{x: x, vars: map[string]TV{}, st: st, old: x.entry}
	// the receiver under the name the contract gives it (takes precedence over shadowing locals)
	if x.topC != nil && x.topC.RecvName != "" && len(x.frames) > 0 && x.frames[0].recvTV != nil {
		env.vars[x.topC.RecvName] = *x.frames[0].recvTV
	}
	// the lets of the contract of the function whose frame is active (not those of the function under verification,
	// when a callee is being executed for its frame computation or inlined)
	var fc *FuncContract
	for i := len(x.frames) - 1; i >= 0; i-- {
		if x.frames[i].fi != nil {
			fc = x.frames[i].contract
			break
		}
	}
	if fc == nil && len(x.frames) == 0 {
		fc = x.topC
	}
	if fc != nil {
		env.lets = map[string]ast.Expr{}
		for _, l := range fc.Lets {
			env.lets[l.Name] = l.Expr
		}
	}
	return env
}

// topFrameEnv: the environment of the function under verification, whatever helper is being inlined right now.
func (x *Exec) topFrameEnv(st *State) *SpecEnv {
	env := x.frameEnv(st)
	env.topFrame = true
	if x.topC != nil {
		env.lets = map[string]ast.Expr{}
		for _, l := range x.topC.Lets {
			env.lets[l.Name] = l.Expr
		}
	}
	return env
}

// contractEnv binds receiver, parameters and results of a contract by name.
func (x *Exec) contractEnv(fc *FuncContract, fi *FuncInfo, sig *types.Signature, recv Value, args []Value, results []Value, st, old *State) *SpecEnv {
	env := &SpecEnv{x: x, vars: map[string]TV{}, st: st, old: old, noLocals: true, lets: map[string]ast.Expr{}}
	for _, l := range fc.Lets {
		env.lets[l.Name] = l.Expr
	}
	if sig.Recv() != nil {
		name := fc.RecvName
		if name == "" {
			name = sig.Recv().Name()
		}
		if name != "" && name != "_" {
			env.vars[name] = x.captureIn(TV{V: recv, T: sig.Recv().Type()}, old)
		}
	}
	for i := 0; i < sig.Params().Len(); i++ {
		name := sig.Params().At(i).Name()
		if i < len(fc.ParamNames) {
			name = fc.ParamNames[i]
		}
		if name == "" || name == "_" || i >= len(args) {
			continue
		}
		env.vars[name] = x.captureIn(TV{V: args[i], T: sig.Params().At(i).Type()}, old)
	}
	for i := 0; i < sig.Results().Len() && i < len(results); i++ {
		name := sig.Results().At(i).Name()
		if i < len(fc.ResultNames) {
			name = fc.ResultNames[i]
		}
		if name == "" || name == "_" {
			name = fmt.Sprintf("res%d", i)
			if sig.Results().Len() == 1 {
				name = "res"
			}
		}
		env.vars[name] = x.captureIn(TV{V: results[i], T: sig.Results().At(i).Type()}, st)
	}
	return env
}

// captureIn: map-typed parameters denote their contents at function entry;
// map-typed results their contents at exit.
func (x *Exec) captureIn(v TV, st *State) TV {
	return x.capture(v, &SpecEnv{x: x, st: st})
}


// inTopOrItsClosure: the statements being executed belong to the function under verification itself or to one of
// its function literals (whose parameters may shadow the function's own by name).
func (x *Exec) inTopOrItsClosure() bool {
	for i := len(x.frames) - 1; i >= 0; i-- {
		if x.frames[i].fi != nil {
			return x.frames[i].fi == x.top
		}
		// a closure belongs to the function its literal is written in, wherever it is called from (a literal of the
		// function under verification that an inlined callee invokes still sees that function's lets and parameters)
		if l := x.frames[i].lit; l != nil && x.top != nil && x.top.Decl != nil && x.top.Decl.Pos() <= l.Pos() && l.End() <= x.top.Decl.End() {
			return true
		}
	}
	return false
}
