package main

import (
	"fmt"
	"golang.org/x/tools/go/packages"
)

func main() {
	cfg := &packages.Config{Mode: packages.NeedName | packages.NeedSyntax | packages.NeedTypes | packages.NeedTypesInfo | packages.NeedFiles | packages.NeedImports | packages.NeedDeps, Dir: "/repo", BuildFlags: []string{"-tags=verif"}}
	pkgs, err := packages.Load(cfg, ".")
	fmt.Println(len(pkgs), err)
	for _, p := range pkgs {
		fmt.Println(p.PkgPath, len(p.Syntax), p.Errors)
	}
}
