package main

import (
	"flag"
	"fmt"
	"os"
	"path/filepath"
	"sort"
	"strings"
)

func usage() {
	fmt.Fprintln(os.Stderr, `usage:
  verif check <Cxx> [--tier quick|thorough]
  verif func <key> [--goos linux] [--dump dir] [--timeout s]
  verif list [--goos linux]
  verif replay <path>`)
	os.Exit(2)
}

func repoDir() string {
	if r := os.Getenv("VERIF_REPO"); r != "" {
		return r
	}
	return "/repo"
}

func main() {
	if len(os.Args) < 2 {
		usage()
	}
	switch os.Args[1] {
	case "func":
		cmdFunc(os.Args[2:])
	case "list":
		cmdList(os.Args[2:])
	case "check":
		cmdCheck(os.Args[2:])
	case "replay":
		cmdReplay(os.Args[2:])
	case "selftest":
		cmdSelftest(os.Args[2:])
	default:
		usage()
	}
}

func patternsFor(goos string) []string {
	return []string{".", "./internal/ztest"}
}

func cmdList(args []string) {
	fs := flag.NewFlagSet("list", flag.ExitOnError)
	goos := fs.String("goos", "linux", "")
	fs.Parse(args)
	prog, err := loadProgram(repoDir(), *goos, patternsFor(*goos))
	if err != nil {
		fmt.Fprintln(os.Stderr, "load:", err)
		os.Exit(2)
	}
	for _, k := range sortedKeys(prog.Contracts.Funcs) {
		fc := prog.Contracts.Funcs[k]
		_, has := prog.Funcs[k]
		fmt.Printf("%-40s trusted=%v inrepo=%v requires=%d ensures=%d loops=%d\n", k, fc.Trusted, has, len(fc.Requires), len(fc.Ensures), len(fc.Loops))
	}
}

func cmdFunc(args []string) {
	fs := flag.NewFlagSet("func", flag.ExitOnError)
	goos := fs.String("goos", "linux", "")
	dump := fs.String("dump", "", "directory to write queries to")
	timeout := fs.Int("timeout", 10, "")
	verbose := fs.Bool("v", false, "")
	var keys []string
	for len(args) > 0 && !strings.HasPrefix(args[0], "-") {
		keys = append(keys, args[0])
		args = args[1:]
	}
	fs.Parse(args)
	prog, err := loadProgram(repoDir(), *goos, patternsFor(*goos))
	if err != nil {
		fmt.Fprintln(os.Stderr, "load:", err)
		os.Exit(2)
	}
	bad := 0
	for _, key := range keys {
		if key == "lemma" {
			r := verifyLemmas(prog, "")
			if r.Err != "" {
				fmt.Println("ERROR", firstLines(r.Err, 8))
			}
			dischargeAll(r.Obligations, *timeout, 0, true)
			for _, o := range vacuousCovers(r.Obligations) {
				fmt.Printf("VACUOUS %s\n", o.Name)
				bad++
			}
			for _, o := range r.Obligations {
				fmt.Printf("%-8s %-10s %5dms %s\n", o.Result, o.Solver, o.Ms, o.Name)
				if o.Result != "unsat" {
					bad++
				}
			}
			continue
		}
		fi := prog.Funcs[key]
		fc := prog.Contracts.Funcs[key]
		if fi == nil || fc == nil {
			fmt.Fprintf(os.Stderr, "no function/contract %s (func=%v contract=%v)\n", key, fi != nil, fc != nil)
			os.Exit(2)
		}
		for _, r := range verifyAllModes(prog, fi, fc) {
			if r.Err != "" {
				fmt.Println("ERROR", r.Func, r.Mode, firstLines(r.Err, 40))
				bad++
			}
			dischargeAll(r.Obligations, *timeout, 0, true)
			for _, o := range r.Obligations {
				mark := "ok  "
				if o.Kind == "vacuity" {
					continue
				}
				if o.Result != "unsat" {
					mark = "FAIL"
					bad++
				}
				if *verbose || o.Result != "unsat" {
					fmt.Printf("%s %-8s %-10s %5dms %s  tags=%v  %s:%d\n", mark, o.Result, o.Solver, o.Ms, o.Name, o.Tags, filepath.Base(o.Pos.Filename), o.Pos.Line)
					if o.Result != "unsat" {
						so := fmt.Sprintf("%v", o.Outputs)
						if len(so) > 300 {
							so = so[:300] + "…"
						}
						fmt.Printf("       solvers: %s\n", so)
					}
				}
				if *dump != "" {
					os.MkdirAll(*dump, 0o755)
					os.WriteFile(filepath.Join(*dump, sanitizeFile(o.Name)+".smt2"), []byte(o.Query(true)), 0o644)
					if o.Model != "" {
						os.WriteFile(filepath.Join(*dump, sanitizeFile(o.Name)+".model"), []byte(o.Model), 0o644)
					}
				}
			}
			n, triv := 0, 0
			for _, o := range r.Obligations {
				n++
				if o.Trivial {
					triv++
				}
			}
			fmt.Printf("== %s %s: %d obligations (%d trivial), abstractions: %v\n", r.Func, r.Mode, n, triv, r.Abstractions)
		}
	}
	if bad > 0 {
		os.Exit(1)
	}
}

func sanitizeFile(s string) string {
	var b strings.Builder
	for _, r := range s {
		switch {
		case r >= 'a' && r <= 'z', r >= 'A' && r <= 'Z', r >= '0' && r <= '9', r == '_', r == '.', r == '-':
			b.WriteRune(r)
		default:
			b.WriteByte('_')
		}
	}
	out := b.String()
	if len(out) > 150 {
		out = out[:150]
	}
	return out
}

func verifyAllModes(prog *Program, fi *FuncInfo, fc *FuncContract) []*VerifyResult {
	if len(fc.Modes) == 0 {
		return []*VerifyResult{verifyFunc(prog, fi, fc, nil)}
	}
	var out []*VerifyResult
	for i := range fc.Modes {
		out = append(out, verifyFunc(prog, fi, fc, &fc.Modes[i]))
	}
	return out
}

func cmdSelftest(args []string) { fmt.Println("not implemented"); os.Exit(2) }

var _ = sort.Strings
