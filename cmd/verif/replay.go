package main

import "context"

func bgCtx() context.Context { return context.Background() }

// replayOnRealCode tries to turn the solver's model of a refuted obligation
// into a test against the real function. Returns nil if no replay exists for
// this obligation shape.
func replayOnRealCode(o *Obligation, goos, dir, base string) map[string]interface{} {
	return nil
}
