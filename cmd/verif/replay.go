package main

// Replay of solver counterexamples on the real code. For functions marked
// `opt replay` (no heap effects, scalar / flat-struct parameters and results)
// the model's input values are passed to the REAL function in an in-package test
// injected with `go test -overlay` (nothing is written to /repo); the observed
// outputs are then checked against the failed clause by the solver.

import (
	"go/ast"
	"go/types"
	"context"
	"encoding/json"
	"fmt"
	"os"
	"os/exec"
	"path/filepath"
	"regexp"
	"strconv"
	"strings"
)

func bgCtx() context.Context { return context.Background() }

type replayVal struct {
	Name   string
	GoType string
	V      Value
}

type replayClause struct {
	Expr        ast.Expr
	Lets        []LetDef
	RecvName    string
	ParamNames  []string
	ResultNames []string
	Preds       map[string]*PredDef
	Scope       *types.Scope
}

type replayInfo struct {
	Func    string
	Pkg     string
	PkgDir  string
	Recv    *replayVal
	Params  []replayVal
	Results []replayVal
}

var modelDefRe = regexp.MustCompile(`(?s)\(define-fun ([^ ()]+) \(\) ([^\n]+)\n\s+([^\n]+)\)`)

func parseModel(m string) map[string]string {
	out := map[string]string{}
	for _, d := range modelDefRe.FindAllStringSubmatch(m, -1) {
		out[d[1]] = strings.TrimSpace(d[3])
	}
	return out
}

func bvToUint(v string) (uint64, bool) {
	switch {
	case strings.HasPrefix(v, "#x"):
		n, err := strconv.ParseUint(v[2:], 16, 64)
		return n, err == nil
	case strings.HasPrefix(v, "#b"):
		n, err := strconv.ParseUint(v[2:], 2, 64)
		return n, err == nil
	case strings.HasPrefix(v, "(_ bv"):
		f := strings.Fields(strings.Trim(v, "()"))
		if len(f) >= 2 {
			n, err := strconv.ParseUint(strings.TrimPrefix(f[1], "bv"), 10, 64)
			return n, err == nil
		}
	}
	return 0, false
}

// goLeaf renders one scalar leaf as a Go expression of type gt.
func (rp *replayer) goLeaf(t Term, gt string) (string, bool) {
	mv, have := rp.model[t.S]
	switch t.T.K {
	case SBV:
		n := uint64(0)
		if have {
			var ok bool
			if n, ok = bvToUint(mv); !ok {
				return "", false
			}
		}
		rp.fixed = append(rp.fixed, fmt.Sprintf("(= %s %s)", t.S, bvConstI(int64(n), t.T.W).S))
		if strings.HasPrefix(gt, "int") && t.T.W == 64 {
			return fmt.Sprintf("%s(%d)", gt, int64(n)), true
		}
		return fmt.Sprintf("%s(%#x)", gt, n), true
	case SInt:
		n := "0"
		if have {
			n = strings.NewReplacer("(", "", ")", "", " ", "").Replace(mv)
		}
		if _, err := strconv.ParseInt(n, 10, 64); err != nil {
			return "", false
		}
		sn := n
		if strings.HasPrefix(n, "-") {
			sn = "(- " + n[1:] + ")"
		}
		rp.fixed = append(rp.fixed, fmt.Sprintf("(= %s %s)", t.S, sn))
		return fmt.Sprintf("%s(%s)", gt, n), true
	case SBool:
		b := have && mv == "true"
		rp.fixed = append(rp.fixed, fmt.Sprintf("(= %s %v)", t.S, b))
		return fmt.Sprintf("%v", b), true
	case SStr:
		// abstract string value -> a concrete string (literals keep their text)
		key := mv
		if !have {
			key = "default"
		}
		if lit, ok := rp.litOfVal[key]; ok {
			rp.fixed = append(rp.fixed, fmt.Sprintf("(= %s %s)", t.S, rp.vc.lits[lit].S))
			return strconv.Quote(lit), true
		}
		s, ok := rp.strOfVal[key]
		if !ok {
			s = fmt.Sprintf("s%d", len(rp.strOfVal))
			rp.strOfVal[key] = s
		}
		rp.strTerm[s] = t.S
		return strconv.Quote(s), true
	}
	return "", false
}

type replayer struct {
	vc       *VC
	model    map[string]string
	fixed    []string
	litOfVal map[string]string // model value -> literal text
	strOfVal map[string]string // model value -> invented concrete string
	strTerm  map[string]string // concrete string -> an SMT term that has this value
}

func (rp *replayer) goValue(v Value, gt string) (string, bool) {
	switch x := v.(type) {
	case Term:
		return rp.goLeaf(x, gt)
	case *StructV:
		if isSlice(x) {
			return "", false
		}
		var fs []string
		for i, n := range x.Names {
			ft := "" // field types: scalars are rendered with an explicit conversion only when the type is known
			e, ok := rp.goValueUntyped(x.F[i])
			if !ok {
				return "", false
			}
			_ = ft
			fs = append(fs, n+": "+e)
		}
		return gt + "{" + strings.Join(fs, ", ") + "}", true
	}
	return "", false
}

func (rp *replayer) goValueUntyped(v Value) (string, bool) {
	t, ok := v.(Term)
	if !ok {
		return "", false
	}
	switch t.T.K {
	case SBV:
		e, ok := rp.goLeaf(t, "uint64")
		if !ok {
			return "", false
		}
		return strings.TrimSuffix(strings.TrimPrefix(e, "uint64("), ")"), true
	case SInt:
		e, ok := rp.goLeaf(t, "int")
		return strings.TrimSuffix(strings.TrimPrefix(e, "int("), ")"), ok
	}
	return rp.goLeaf(t, "")
}

// replayOnRealCode returns a record of the replay, with "reproduced": true if the real outputs violate the clause.
func replayOnRealCode(o *Obligation, goos, dir, base string) map[string]interface{} {
	if o.ReplayGoal == nil || o.Replay == nil || goos != "linux" || o.vc == nil {
		return nil
	}
	ri := o.Replay
	model := o.Model
	if o.SplitBits > 0 || model == "" || !strings.Contains(model, "define-fun") {
		// get a model from z3 for the failing case
		so := runSolver(bgCtx(), solvers[0], o.Query(true), 20, 0)
		if so.status != "sat" {
			so = runSolver(bgCtx(), solvers[1], o.Query(true), 20, 0)
		}
		if so.status != "sat" {
			return map[string]interface{}{"reproduced": false, "why": "no model available"}
		}
		model = so.output
	}
	rp := &replayer{vc: o.vc, model: parseModel(model), litOfVal: map[string]string{}, strOfVal: map[string]string{}, strTerm: map[string]string{}}
	for lit, t := range o.vc.lits {
		if mv, ok := rp.model[t.S]; ok {
			rp.litOfVal[mv] = lit
		}
	}
	// with a case split the split variable is a define-fun of its high part
	if o.SplitBits > 0 && o.SplitVar != "" {
		if hv, ok := rp.model[o.SplitVar+".hi"]; ok {
			if n, ok2 := bvToUint(hv); ok2 {
				full := n<<uint(o.SplitBits) | uint64(o.splitVal)
				rp.model[o.SplitVar] = fmt.Sprintf("#x%08x", full)
			}
		}
	}
	var argExprs []string
	for _, p := range ri.Params {
		e, ok := rp.goValue(p.V, p.GoType)
		if !ok {
			return map[string]interface{}{"reproduced": false, "why": "parameter " + p.Name + " cannot be rendered as a Go value"}
		}
		argExprs = append(argExprs, e)
	}
	call := ri.Func + "(" + strings.Join(argExprs, ", ") + ")"
	if ri.Recv != nil {
		if strings.HasPrefix(ri.Recv.GoType, "*") {
			call = "new(" + ri.Recv.GoType[1:] + ")." + call
		} else {
			e, ok := rp.goValue(ri.Recv.V, ri.Recv.GoType)
			if !ok {
				return map[string]interface{}{"reproduced": false, "why": "receiver cannot be rendered as a Go value"}
			}
			call = e + "." + call
		}
	}
	// print every result leaf
	var lhs, prints []string
	for i, r := range ri.Results {
		name := fmt.Sprintf("r%d", i)
		lhs = append(lhs, name)
		switch rv := r.V.(type) {
		case Term:
			prints = append(prints, printLeaf(name, rv))
		case *StructV:
			for j, fn := range rv.Names {
				if t, ok := rv.F[j].(Term); ok {
					prints = append(prints, printLeaf(name+"."+fn, t))
				}
			}
		}
	}
	src := fmt.Sprintf("package %s\n\nimport (\n\t\"fmt\"\n\t\"testing\"\n)\n\n// generated by /verif: replays a solver counterexample on the real function\nfunc TestVerifReplay(t *testing.T) {\n\t%s := %s\n%s}\n",
		ri.Pkg, strings.Join(lhs, ", "), call, strings.Join(prints, ""))
	if len(lhs) == 0 {
		return nil
	}
	tdir, err := os.MkdirTemp("", "replay.")
	if err != nil {
		return nil
	}
	defer os.RemoveAll(tdir)
	tf := filepath.Join(tdir, "verif_replay_test.go")
	os.WriteFile(tf, []byte(src), 0o644)
	ovb, _ := json.Marshal(map[string]interface{}{"Replace": map[string]string{filepath.Join(ri.PkgDir, "verif_replay_test.go"): tf}})
	ov := filepath.Join(tdir, "ov.json")
	os.WriteFile(ov, ovb, 0o644)
	cmd := exec.Command("go", "test", "-overlay", ov, "-vet=off", "-count=1", "-timeout", "60s", "-run", "^TestVerifReplay$", "-v", ".")
	cmd.Dir = ri.PkgDir
	cmd.Env = append(os.Environ(), "GOFLAGS=-mod=mod", "GOPROXY=off", "GOSUMDB=off", "GOTOOLCHAIN=local")
	out, _ := cmd.CombinedOutput()
	rec := map[string]interface{}{"test_source": src, "cmd": "go test -overlay <ov> -vet=off -count=1 -timeout 60s -run '^TestVerifReplay$' -v . (in " + ri.PkgDir + ")", "output": firstLines(string(out), 30), "call": call}
	// observed outputs -> assertions on the free result constants
	obs := map[string]string{}
	for _, ln := range strings.Split(string(out), "\n") {
		if strings.HasPrefix(ln, "VERIFREPLAY ") {
			f := strings.SplitN(ln[len("VERIFREPLAY "):], "=", 2)
			if len(f) == 2 {
				obs[f[0]] = f[1]
			}
		}
	}
	if len(obs) == 0 {
		rec["reproduced"] = false
		rec["why"] = "the replay test did not run"
		if strings.Contains(string(out), "panic:") {
			// the real function panics on the model's input: that is a reproduced failure
			rec["reproduced"] = true
			rec["why"] = "the real function panics on this input"
		}
		return rec
	}
	extra := append([]string(nil), rp.fixed...)
	var extraDecl []string
	addStr := func(term string, val string) {
		// the concrete string val as an SMT term
		for lit, t := range o.vc.lits {
			if lit == val {
				extra = append(extra, fmt.Sprintf("(= %s %s)", term, t.S))
				return
			}
		}
		if val == "" {
			extra = append(extra, fmt.Sprintf("(= %s str.empty)", term))
			return
		}
		if t, ok := rp.strTerm[val]; ok {
			if t != term {
				extra = append(extra, fmt.Sprintf("(= %s %s)", term, t))
			}
			return
		}
		rp.strTerm[val] = term
	}
	i := 0
	for _, r := range ri.Results {
		name := fmt.Sprintf("r%d", i)
		i++
		leaves := map[string]Term{}
		switch rv := r.V.(type) {
		case Term:
			leaves[name] = rv
		case *StructV:
			for j, fn := range rv.Names {
				if t, ok := rv.F[j].(Term); ok {
					leaves[name+"."+fn] = t
				}
			}
		}
		for ln, t := range leaves {
			v, ok := obs[ln]
			if !ok {
				continue
			}
			switch t.T.K {
			case SBV:
				n, _ := strconv.ParseUint(v, 10, 64)
				extra = append(extra, fmt.Sprintf("(= %s %s)", t.S, bvConstI(int64(n), t.T.W).S))
			case SInt:
				if strings.HasPrefix(v, "-") {
					extra = append(extra, fmt.Sprintf("(= %s (- %s))", t.S, v[1:]))
				} else {
					extra = append(extra, fmt.Sprintf("(= %s %s)", t.S, v))
				}
			case SBool:
				extra = append(extra, fmt.Sprintf("(= %s %s)", t.S, v))
			case SStr:
				s, err := strconv.Unquote(v)
				if err != nil {
					s = v
				}
				if o.Strings {
					extra = append(extra, fmt.Sprintf("(= %s %s)", t.S, smtStringLit(s)))
				} else {
					addStr(t.S, s)
				}
			}
		}
	}
	// distinct invented strings denote distinct values, different from every literal
	if !o.Strings {
		var ds []string
		for _, t := range rp.strTerm {
			ds = append(ds, t)
		}
		for _, t := range o.vc.lits {
			ds = append(ds, t.S)
		}
		if len(ds) > 1 {
			extra = append(extra, "(distinct "+strings.Join(ds, " ")+" str.empty)")
		}
	}
	_ = extraDecl
	c := *o
	c.PC = tTrue
	c.Goal = *o.ReplayGoal
	c.ExtraAsserts = extra
	so := runSolver(bgCtx(), solvers[0], c.Query(false), 20, 0)
	if so.status != "sat" && so.status != "unsat" {
		so = runSolver(bgCtx(), solvers[1], c.Query(false), 20, 0)
	}
	rec["observed"] = obs
	rec["clause_on_observed_outputs"] = so.status
	rec["reproduced"] = false
	if so.status == "sat" {
		// the clause must be false whatever the uninterpreted library functions (Sprintf, Clean, ...) are: assert it and expect unsat
		c2 := c
		c2.Goal = tNot(*o.ReplayGoal)
		so2 := runSolver(bgCtx(), solvers[0], c2.Query(false), 20, 0)
		if so2.status != "sat" && so2.status != "unsat" {
			so2 = runSolver(bgCtx(), solvers[1], c2.Query(false), 20, 0)
		}
		rec["clause_satisfiable_on_observed_outputs"] = so2.status
		if so2.status == "unsat" {
			rec["reproduced"] = true
			rec["why"] = "the real function's output for this input violates the clause"
		} else {
			rec["why"] = "the clause mentions library functions kept uninterpreted (e.g. fmt.Sprintf), so the observed output cannot be judged by the solver alone"
			// judge it concretely instead: the clause as written, on this input and the real output, with the real fmt.Sprintf
			if holds, err := rp.evalClauseConcretely(o, ri, obs); err == nil {
				rec["clause_evaluated_concretely"] = holds
				if holds {
					rec["rests_on_uninterpreted"] = true
					rec["why"] = "evaluated concretely (real fmt.Sprintf) on this input and the real output the clause HOLDS: the solver's counterexample exists only because the library function is uninterpreted"
				} else {
					rec["reproduced"] = true
					rec["why"] = "evaluated concretely (real fmt.Sprintf) on this input, the real function's output violates the clause"
				}
			} else {
				rec["concrete_evaluation"] = "not possible: " + err.Error()
			}
		}
	} else if so.status == "unsat" {
		rec["why"] = "the real function's output for the model's input satisfies the clause (the model does not transfer)"
	}
	return rec
}

func printLeaf(expr string, t Term) string {
	switch t.T.K {
	case SBV:
		return fmt.Sprintf("\tfmt.Printf(\"VERIFREPLAY %s=%%d\\n\", uint64(%s))\n", expr, expr)
	case SInt:
		return fmt.Sprintf("\tfmt.Printf(\"VERIFREPLAY %s=%%d\\n\", int64(%s))\n", expr, expr)
	case SBool:
		return fmt.Sprintf("\tfmt.Printf(\"VERIFREPLAY %s=%%t\\n\", %s)\n", expr, expr)
	case SStr:
		return fmt.Sprintf("\tfmt.Printf(\"VERIFREPLAY %s=%%q\\n\", %s)\n", expr, expr)
	}
	return ""
}


// evalClauseConcretely evaluates the whole ensures clause on the model's input and the observed real outputs.
func (rp *replayer) evalClauseConcretely(o *Obligation, ri *replayInfo, obs map[string]string) (bool, error) {
	rc := o.ReplayClause
	if rc == nil {
		return false, fmt.Errorf("no clause recorded")
	}
	env := map[string]dyn{}
	if ri.Recv != nil && rc.RecvName != "" {
		v, ok := rp.dynValue(ri.Recv.V)
		if !ok {
			return false, fmt.Errorf("receiver has no concrete value")
		}
		env[rc.RecvName] = v
	}
	for i, p := range ri.Params {
		v, ok := rp.dynValue(p.V)
		if !ok {
			return false, fmt.Errorf("parameter %s has no concrete value", p.Name)
		}
		name := p.Name
		if i < len(rc.ParamNames) && rc.ParamNames[i] != "" {
			name = rc.ParamNames[i]
		}
		env[name] = v
	}
	for i, r := range ri.Results {
		if i >= len(rc.ResultNames) {
			return false, fmt.Errorf("result %d has no name in the contract", i)
		}
		if _, isTerm := r.V.(Term); !isTerm {
			return false, fmt.Errorf("structured result")
		}
		raw, ok := obs[fmt.Sprintf("r%d", i)]
		if !ok {
			return false, fmt.Errorf("result %d was not observed", i)
		}
		v, ok := parseGoLiteral(raw)
		if !ok {
			return false, fmt.Errorf("observed result %q not understood", raw)
		}
		env[rc.ResultNames[i]] = v
	}
	ce := &concEval{preds: rc.Preds, scope: rc.Scope}
	for _, l := range rc.Lets {
		v, err := ce.eval(l.Expr, env)
		if err != nil {
			continue // a let the clause may not need
		}
		env[l.Name] = v
	}
	v, err := ce.eval(rc.Expr, env)
	if err != nil {
		return false, err
	}
	b, ok := v.(bool)
	if !ok {
		return false, fmt.Errorf("clause is not boolean")
	}
	return b, nil
}
