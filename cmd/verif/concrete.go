package main

import (
	"fmt"
	"go/ast"
	"go/constant"
	"go/token"
	"go/types"
	"strconv"
	"strings"
)

// Concrete evaluation of a postcondition on ONE input and the real function's output for it, used by the real-code
// replay when the solver cannot judge the observed output because the clause mentions a library function it keeps
// uninterpreted (fmt.Sprintf). The interpreter knows the spec functions with a fixed meaning (sprintf is the real
// fmt.Sprintf here, cat, drop, contains, ite, len), the `def`s of the contract files, the package's constants, and
// integers, strings and booleans; anything else makes it give up (error), and the caller falls back.

type dyn interface{} // int64 | string | bool | map[string]dyn

type concEval struct {
	preds map[string]*PredDef
	scope *types.Scope
	depth int
}

func parseGoLiteral(s string) (dyn, bool) {
	s = strings.TrimSpace(s)
	for {
		// strip conversions T(...)
		i := strings.Index(s, "(")
		if i > 0 && strings.HasSuffix(s, ")") && !strings.HasPrefix(s, "\"") && isIdentLike(s[:i]) {
			s = s[i+1 : len(s)-1]
			continue
		}
		break
	}
	switch {
	case s == "true":
		return true, true
	case s == "false":
		return false, true
	case strings.HasPrefix(s, "\"") || strings.HasPrefix(s, "`"):
		u, err := strconv.Unquote(s)
		return u, err == nil
	}
	if n, err := strconv.ParseInt(s, 0, 64); err == nil {
		return n, true
	}
	if n, err := strconv.ParseUint(s, 0, 64); err == nil {
		return int64(n), true
	}
	return nil, false
}

func isIdentLike(s string) bool {
	for _, r := range s {
		if !(r == '_' || r == '.' || r == '*' || (r >= '0' && r <= '9') || (r >= 'a' && r <= 'z') || (r >= 'A' && r <= 'Z')) {
			return false
		}
	}
	return s != ""
}

func (rp *replayer) dynValue(v Value) (dyn, bool) {
	switch x := v.(type) {
	case Term:
		e, ok := rp.goValueUntyped(x)
		if !ok {
			return nil, false
		}
		return parseGoLiteral(e)
	case *StructV:
		if isSlice(x) {
			return nil, false
		}
		m := map[string]dyn{}
		for i, n := range x.Names {
			d, ok := rp.dynValue(x.F[i])
			if !ok {
				return nil, false
			}
			m[n] = d
		}
		return m, true
	}
	return nil, false
}

func dynEq(a, b dyn) (bool, error) {
	switch x := a.(type) {
	case int64:
		y, ok := b.(int64)
		if !ok {
			return false, fmt.Errorf("comparing an integer with %T", b)
		}
		return x == y, nil
	case string:
		y, ok := b.(string)
		if !ok {
			return false, fmt.Errorf("comparing a string with %T", b)
		}
		return x == y, nil
	case bool:
		y, ok := b.(bool)
		if !ok {
			return false, fmt.Errorf("comparing a bool with %T", b)
		}
		return x == y, nil
	}
	return false, fmt.Errorf("comparison of %T", a)
}

func (c *concEval) eval(e ast.Expr, env map[string]dyn) (dyn, error) {
	c.depth++
	defer func() { c.depth-- }()
	if c.depth > 200 {
		return nil, fmt.Errorf("too deep")
	}
	switch n := e.(type) {
	case *ast.ParenExpr:
		return c.eval(n.X, env)
	case *ast.BasicLit:
		switch n.Kind {
		case token.INT:
			v, err := strconv.ParseInt(n.Value, 0, 64)
			return v, err
		case token.STRING:
			s, err := strconv.Unquote(n.Value)
			return s, err
		case token.CHAR:
			s, err := strconv.Unquote(n.Value)
			if err != nil || len([]rune(s)) != 1 {
				return nil, fmt.Errorf("char literal")
			}
			return int64([]rune(s)[0]), nil
		}
		return nil, fmt.Errorf("literal %s", n.Value)
	case *ast.Ident:
		if v, ok := env[n.Name]; ok {
			return v, nil
		}
		switch n.Name {
		case "true":
			return true, nil
		case "false":
			return false, nil
		}
		if c.scope != nil {
			if k, ok := c.scope.Lookup(n.Name).(*types.Const); ok {
				switch k.Val().Kind() {
				case constant.Int:
					if v, exact := constant.Int64Val(k.Val()); exact {
						return v, nil
					}
					if v, exact := constant.Uint64Val(k.Val()); exact {
						return int64(v), nil
					}
				case constant.String:
					return constant.StringVal(k.Val()), nil
				case constant.Bool:
					return constant.BoolVal(k.Val()), nil
				}
			}
		}
		return nil, fmt.Errorf("identifier %s has no concrete value", n.Name)
	case *ast.SelectorExpr:
		x, err := c.eval(n.X, env)
		if err != nil {
			return nil, err
		}
		m, ok := x.(map[string]dyn)
		if !ok {
			return nil, fmt.Errorf("selector on %T", x)
		}
		v, ok := m[n.Sel.Name]
		if !ok {
			return nil, fmt.Errorf("no field %s", n.Sel.Name)
		}
		return v, nil
	case *ast.UnaryExpr:
		x, err := c.eval(n.X, env)
		if err != nil {
			return nil, err
		}
		switch n.Op {
		case token.NOT:
			if b, ok := x.(bool); ok {
				return !b, nil
			}
		case token.SUB:
			if i, ok := x.(int64); ok {
				return -i, nil
			}
		case token.ADD:
			return x, nil
		}
		return nil, fmt.Errorf("unary %s", n.Op)
	case *ast.BinaryExpr:
		if n.Op == token.LAND || n.Op == token.LOR {
			x, err := c.eval(n.X, env)
			if err != nil {
				return nil, err
			}
			xb, ok := x.(bool)
			if !ok {
				return nil, fmt.Errorf("&&/|| on %T", x)
			}
			if n.Op == token.LAND && !xb {
				return false, nil
			}
			if n.Op == token.LOR && xb {
				return true, nil
			}
			return c.eval(n.Y, env)
		}
		x, err := c.eval(n.X, env)
		if err != nil {
			return nil, err
		}
		y, err := c.eval(n.Y, env)
		if err != nil {
			return nil, err
		}
		switch n.Op {
		case token.EQL:
			return dynEq(x, y)
		case token.NEQ:
			b, err := dynEq(x, y)
			return !b, err
		}
		if xs, ok := x.(string); ok {
			ys, ok2 := y.(string)
			if !ok2 {
				return nil, fmt.Errorf("string %s %T", n.Op, y)
			}
			switch n.Op {
			case token.ADD:
				return xs + ys, nil
			case token.LSS:
				return xs < ys, nil
			case token.GTR:
				return xs > ys, nil
			}
			return nil, fmt.Errorf("string op %s", n.Op)
		}
		xi, ok1 := x.(int64)
		yi, ok2 := y.(int64)
		if !ok1 || !ok2 {
			return nil, fmt.Errorf("%T %s %T", x, n.Op, y)
		}
		switch n.Op {
		case token.ADD:
			return xi + yi, nil
		case token.SUB:
			return xi - yi, nil
		case token.MUL:
			return xi * yi, nil
		case token.AND:
			return xi & yi, nil
		case token.OR:
			return xi | yi, nil
		case token.XOR:
			return xi ^ yi, nil
		case token.AND_NOT:
			return xi &^ yi, nil
		case token.SHL:
			if yi < 0 || yi > 62 {
				return nil, fmt.Errorf("shift")
			}
			return xi << uint(yi), nil
		case token.SHR:
			if yi < 0 || yi > 63 {
				return nil, fmt.Errorf("shift")
			}
			return xi >> uint(yi), nil
		case token.LSS:
			return xi < yi, nil
		case token.LEQ:
			return xi <= yi, nil
		case token.GTR:
			return xi > yi, nil
		case token.GEQ:
			return xi >= yi, nil
		}
		return nil, fmt.Errorf("operator %s", n.Op)
	case *ast.CallExpr:
		id, ok := n.Fun.(*ast.Ident)
		if !ok {
			return nil, fmt.Errorf("call of a non-identifier")
		}
		arg := func(i int) (dyn, error) { return c.eval(n.Args[i], env) }
		boolArg := func(i int) (bool, error) {
			v, err := arg(i)
			if err != nil {
				return false, err
			}
			b, ok := v.(bool)
			if !ok {
				return false, fmt.Errorf("%s: argument %d is %T", id.Name, i, v)
			}
			return b, nil
		}
		strArg := func(i int) (string, error) {
			v, err := arg(i)
			if err != nil {
				return "", err
			}
			s, ok := v.(string)
			if !ok {
				return "", fmt.Errorf("%s: argument %d is %T", id.Name, i, v)
			}
			return s, nil
		}
		switch id.Name {
		case "__imp":
			a, err := boolArg(0)
			if err != nil {
				return nil, err
			}
			if !a {
				return true, nil
			}
			return boolArg(1)
		case "__iff":
			a, err := boolArg(0)
			if err != nil {
				return nil, err
			}
			b, err := boolArg(1)
			return a == b, err
		case "ite":
			a, err := boolArg(0)
			if err != nil {
				return nil, err
			}
			if a {
				return arg(1)
			}
			return arg(2)
		case "old":
			return arg(0) // a replayable function is pure: its parameters are values
		case "cat":
			a, err := strArg(0)
			if err != nil {
				return nil, err
			}
			b, err := strArg(1)
			return a + b, err
		case "drop":
			a, err := strArg(0)
			if err != nil {
				return nil, err
			}
			k, err := arg(1)
			if err != nil {
				return nil, err
			}
			ki, ok := k.(int64)
			if !ok || ki < 0 {
				return nil, fmt.Errorf("drop count")
			}
			if int(ki) >= len(a) {
				return "", nil
			}
			return a[ki:], nil
		case "contains":
			a, err := strArg(0)
			if err != nil {
				return nil, err
			}
			b, err := strArg(1)
			return strings.Contains(a, b), err
		case "len":
			a, err := strArg(0)
			return int64(len(a)), err
		case "sprintf":
			f, err := strArg(0)
			if err != nil {
				return nil, err
			}
			var as []interface{}
			for i := 1; i < len(n.Args); i++ {
				v, err := arg(i)
				if err != nil {
					return nil, err
				}
				switch v.(type) {
				case int64, string, bool:
					as = append(as, v)
				default:
					return nil, fmt.Errorf("sprintf argument of %T", v)
				}
			}
			return fmt.Sprintf(f, as...), nil
		case "int", "int8", "int16", "int32", "int64", "uint", "uint8", "uint16", "uint32", "uint64", "Op", "Int":
			v, err := arg(0)
			if err != nil {
				return nil, err
			}
			i, ok := v.(int64)
			if !ok {
				return nil, fmt.Errorf("conversion of %T", v)
			}
			switch id.Name {
			case "uint32", "Op":
				return i & 0xffffffff, nil
			case "uint16":
				return i & 0xffff, nil
			case "uint8":
				return i & 0xff, nil
			case "int32":
				return int64(int32(i)), nil
			}
			return i, nil
		}
		if p, ok := c.preds[id.Name]; ok && len(p.Params) == len(n.Args) {
			ne := map[string]dyn{}
			for i, pd := range p.Params {
				v, err := arg(i)
				if err != nil {
					return nil, err
				}
				ne[pd.Name] = v
			}
			return c.eval(p.Body, ne)
		}
		return nil, fmt.Errorf("function %s has no concrete meaning here", id.Name)
	}
	return nil, fmt.Errorf("expression form %T", e)
}
