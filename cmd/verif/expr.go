package main

import (
	"fmt"
	"sync"
	"go/ast"
	"go/constant"
	"go/token"
	"go/types"
	"math/big"
	"strings"
)

func (x *Exec) constOfSort(v int64, s *Sort) Term {
	switch s.K {
	case SBV:
		return bvConstI(v, s.W)
	case SInt:
		return intConstI(v)
	}
	panic("constOfSort " + s.String())
}

func (x *Exec) constToSort(c ConstV, s *Sort) Term {
	switch s.K {
	case SBool:
		if constant.BoolVal(c.V) {
			return tTrue
		}
		return tFalse
	case SBV:
		bi, ok := constBig(c.V)
		if !ok {
			panic("non-integer constant for bit-vector")
		}
		return bvConst(bi, s.W)
	case SInt, SRef:
		bi, ok := constBig(c.V)
		if !ok {
			panic("non-integer constant for Int")
		}
		t := intConst(bi)
		t.T = s
		return t
	case SStr:
		return x.vc.strLit(constant.StringVal(c.V))
	case SErr:
		return tErrNil
	}
	panic("constToSort: " + s.String())
}

func constBig(v constant.Value) (*big.Int, bool) {
	v = constant.ToInt(v)
	if v.Kind() != constant.Int {
		return nil, false
	}
	if i, ok := constant.Int64Val(v); ok {
		return big.NewInt(i), true
	}
	bi, ok := new(big.Int).SetString(v.ExactString(), 10)
	return bi, ok
}

func (x *Exec) constValue(cv constant.Value, t types.Type) Value {
	s := x.scalarSort(t)
	if s == nil {
		panic("constant of composite type " + t.String())
	}
	if s.K == SUnint {
		return x.vc.fresh("floatconst", s)
	}
	return x.constToSort(ConstV{cv}, s)
}

// expr evaluates e in st (st is updated in place for side effects).
func (x *Exec) expr(e ast.Expr, st *State) Value {
	if tv, ok := x.info.Types[e]; ok && tv.Value != nil && tv.Type != nil {
		if b, isB := tv.Type.Underlying().(*types.Basic); !isB || b.Kind() != types.UntypedNil {
			return x.constValue(tv.Value, tv.Type)
		}
	}
	switch e := e.(type) {
	case *ast.ParenExpr:
		return x.expr(e.X, st)
	case *ast.Ident:
		return x.ident(e, st)
	case *ast.BasicLit:
		x.unsupported(e, "literal without constant value")
	case *ast.SelectorExpr:
		return x.selector(e, st)
	case *ast.IndexExpr:
		return x.index(e, st)
	case *ast.SliceExpr:
		return x.sliceExpr(e, st)
	case *ast.StarExpr:
		pv := x.expr(e.X, st)
		if pl, ok := pv.(PtrLocalV); ok {
			return st.vars[pl.Obj]
		}
		p := pv.(Term)
		x.assertSafety(st, "nil", "nil pointer dereference", tNe(p, tNil), e.Pos())
		pt := x.info.TypeOf(e.X).Underlying().(*types.Pointer)
		return x.loadDeref(st, pt.Elem(), p, e.Pos())
	case *ast.UnaryExpr:
		return x.unary(e, st)
	case *ast.BinaryExpr:
		return x.binary(e, st)
	case *ast.CallExpr:
		return x.call(e, st, 1)
	case *ast.CompositeLit:
		return x.compositeLit(e, st)
	case *ast.FuncLit:
		return ClosureV{Lit: e}
	case *ast.TypeAssertExpr:
		x.abstractions["type assertion: result havoc'd"] = true
		x.expr(e.X, st)
		return x.freshValue(x.info.TypeOf(e), "typeassert")
	}
	x.unsupported(e, "expression %T", e)
	return nil
}

// exprMulti evaluates a multi-valued expression (call, comma-ok forms).
func (x *Exec) exprMulti(e ast.Expr, st *State, n int) []Value {
	switch e := e.(type) {
	case *ast.ParenExpr:
		return x.exprMulti(e.X, st, n)
	case *ast.CallExpr:
		v := x.call(e, st, n)
		if tv, ok := v.(TupleV); ok && len(tv) == n {
			return tv
		}
		x.unsupported(e, "call does not produce %d values", n)
	case *ast.IndexExpr:
		if mt, ok := x.info.TypeOf(e.X).Underlying().(*types.Map); ok && n == 2 {
			m := x.expr(e.X, st).(Term)
			k := x.convertAssign(x.expr(e.Index, st), x.info.TypeOf(e.Index), mt.Key(), st).(Term)
			v, has := x.mapLoad(st, mt, m, k, e.Pos())
			return []Value{v, has}
		}
	case *ast.UnaryExpr:
		if e.Op == token.ARROW && n == 2 {
			v := x.recv(e.X, st, e.Pos(), true)
			return []Value{v, x.vc.fresh("recvok", sortBool)}
		}
	case *ast.TypeAssertExpr:
		x.abstractions["type assertion: result havoc'd"] = true
		x.expr(e.X, st)
		return []Value{x.freshValue(x.info.TypeOf(e.Type), "typeassert"), x.vc.fresh("ok", sortBool)}
	}
	x.unsupported(e, "multi-value expression")
	return nil
}

func (x *Exec) ident(e *ast.Ident, st *State) Value {
	obj := x.info.ObjectOf(e)
	switch o := obj.(type) {
	case *types.Nil:
		t := x.info.TypeOf(e)
		if t != nil {
			if s := x.scalarSort(t); s != nil {
				return zeroOf(s)
			}
			return x.zeroValue(t)
		}
		return tNil
	case *types.Var:
		if o.Parent() == o.Pkg().Scope() {
			if v, ok := x.pkgTableValue(o, st); ok {
				return v
			}
			return x.getHeap(st, x.globalKey(o))
		}
		v, ok := st.vars[o]
		if !ok {
			x.unsupported(e, "variable %s has no value (captured outside its frame?)", o.Name())
		}
		return v
	case *types.Func:
		return FuncV{Fn: o}
	case *types.Const:
		return x.constValue(o.Val(), o.Type())
	}
	if e.Name == "true" {
		return tTrue
	}
	if e.Name == "false" {
		return tFalse
	}
	x.unsupported(e, "identifier %s (%T)", e.Name, obj)
	return nil
}

// pkgTableValue: a package-level table (array / slice / struct built from a composite literal of constants) that no
// non-test code ever writes, slices or aliases has, at every use, the value of its initialiser.
func (x *Exec) pkgTableValue(o *types.Var, st *State) (Value, bool) {
	if o.Pkg() != x.pkg.Types {
		return nil, false
	}
	switch o.Type().Underlying().(type) {
	case *types.Array, *types.Struct:
	default:
		return nil, false // scalars (switches such as enableRecurse, which tests flip), maps, slices, pointers stay symbolic
	}
	if x.tableInit == nil {
		x.tableInit = map[*types.Var]ast.Expr{}
		for _, f := range x.pkg.Syntax {
			for _, d := range f.Decls {
				gd, ok := d.(*ast.GenDecl)
				if !ok || gd.Tok != token.VAR {
					continue
				}
				for _, sp := range gd.Specs {
					vs := sp.(*ast.ValueSpec)
					if len(vs.Values) != len(vs.Names) {
						continue
					}
					for i, n := range vs.Names {
						if v, ok := x.info.Defs[n].(*types.Var); ok {
							x.tableInit[v] = vs.Values[i]
						}
					}
				}
			}
		}
	}
	init, ok := x.tableInit[o]
	if !ok {
		return nil, false
	}
	if _, written := scanPkgVarWrites(x.prog)[o]; written {
		return nil, false
	}
	var constLit func(e ast.Expr) bool
	constLit = func(e ast.Expr) bool {
		e = unparen(e)
		if tv, ok := x.info.Types[e]; ok && tv.Value != nil {
			return true
		}
		cl, ok := e.(*ast.CompositeLit)
		if !ok {
			return false
		}
		for _, el := range cl.Elts {
			if kv, isKV := el.(*ast.KeyValueExpr); isKV {
				el = kv.Value
			}
			if !constLit(el) {
				return false
			}
		}
		return true
	}
	if !constLit(init) {
		return nil, false
	}
	ok2 := true
	var val Value
	func() {
		defer func() {
			if r := recover(); r != nil {
				if _, isUnsup := r.(unsupported); isUnsup {
					ok2 = false
					return
				}
				panic(r)
			}
		}()
		val = x.expr(init, st)
	}()
	if !ok2 {
		return nil, false
	}
	return val, true
}

func (x *Exec) globalKey(v *types.Var) string {
	key := "glob:" + v.Pkg().Name() + "." + v.Name()
	x.registerHeap(key, func() Value {
		if isErrorType(v.Type()) {
			return x.vc.errVar(v.Pkg().Name() + "." + v.Name())
		}
		return x.mkValue(v.Type(), nil, "glob."+v.Name(), x.baseLeaf)
	})
	return key
}

func structName(t types.Type) string {
	if p, ok := t.(*types.Pointer); ok {
		t = p.Elem()
	}
	if n, ok := t.(*types.Named); ok {
		name := n.Obj().Name()
		if n.Obj().Pkg() != nil && !isMainLike(n.Obj().Pkg()) {
			name = n.Obj().Pkg().Name() + "." + name
		}
		return name
	}
	return typeKey(t)
}

var mainPkgPaths sync.Map

func isMainLike(p *types.Package) bool { _, ok := mainPkgPaths.Load(p.Path()); return ok }

func (x *Exec) fieldKey(structT types.Type, f *types.Var) string {
	key := "f:" + structName(structT) + "." + f.Name()
	x.registerHeap(key, func() Value {
		return x.mkValue(f.Type(), []*Sort{sortRef}, key[2:], x.baseLeaf)
	})
	return key
}

func (x *Exec) boxKey(t types.Type) string {
	key := "box:" + typeKey(t)
	x.registerHeap(key, func() Value {
		return x.mkValue(t, []*Sort{sortRef}, "box", x.baseLeaf)
	})
	return key
}

func (x *Exec) mapKeys(mt *types.Map) (hasKey, valKey string) {
	base := "m:" + typeKey(mt.Key()) + ":" + typeKey(mt.Elem())
	hasKey, valKey = base+".has", base+".val"
	ks := x.scalarSort(mt.Key())
	if ks == nil {
		panic("map key type not scalar: " + mt.Key().String())
	}
	x.registerHeap(hasKey, func() Value { return x.vc.freshBase("maphas", sortArr(sortRef, sortArr(ks, sortBool))) })
	x.registerHeap(valKey, func() Value {
		return x.mkValue(mt.Elem(), []*Sort{sortRef, ks}, "mapval", x.baseLeaf)
	})
	return
}

// accessCheck: ownership (lock held) and immutability discipline for a heap key.
func (x *Exec) accessCheck(st *State, key string, ref Term, write bool, pos token.Pos) {
	k := strings.TrimPrefix(key, "f:")
	cs := x.prog.Contracts
	if st.local[ref.S] {
		return
	}
	if lock, ok := cs.Owned[k]; ok {
		x.assertSafety(st, "own", "access to "+k+" requires "+lock, x.heldTerm(st, lock), pos)
		if write {
			x.assertSafety(st, "own", "a write to "+k+" requires "+lock+" to be held exclusively (not through RLock)", tNot(x.getHeap(st, x.readLockedKey(lock)).(Term)), pos)
		}
	}
	if tok, ok := cs.Confined[k]; ok {
		x.assertSafety(st, "own", "access to "+k+" is confined to the holder of token("+tok+")", x.getHeap(st, x.tokKey(tok)).(Term), pos)
	}
	if write && cs.Immutable[k] {
		x.assertSafety(st, "immutable", k+" is written only before publication", tFalse, pos)
	}
}

// readLockedKey: the lock class is currently held through RLock (false for Lock and when not held at all)
func (x *Exec) readLockedKey(lock string) string {
	key := "rlocked:" + lock
	x.registerHeap(key, func() Value { return tFalse })
	return key
}

func (x *Exec) heldKey(lock string) string {
	key := "held:" + lock
	x.registerHeap(key, func() Value {
		if !x.declaredLockClass(lock) {
			// a mutex no contract mentions cannot be passed in held: no caller's contract could say so
			return tFalse
		}
		return x.vc.freshBase("held."+lock, sortBool)
	})
	return key
}

func (x *Exec) heldTerm(st *State, lock string) Term {
	return x.getHeap(st, x.heldKey(lock)).(Term)
}

func (x *Exec) tokKey(name string) string {
	key := "tok:" + name
	x.registerHeap(key, func() Value { return x.vc.freshBase("tok."+name, sortBool) })
	return key
}

// fieldStep selects field i of cur (struct value or pointer to struct).
func (x *Exec) fieldStep(cur Value, curT types.Type, i int, st *State, pos token.Pos) (Value, types.Type) {
	if p, ok := curT.Underlying().(*types.Pointer); ok {
		stt := p.Elem().Underlying().(*types.Struct)
		f := stt.Field(i)
		if pl, isPL := cur.(PtrLocalV); isPL {
			return st.vars[pl.Obj].(*StructV).get(f.Name()), f.Type()
		}
		if lv, isLoc := cur.(LocV); isLoc {
			// a pointer into another object (&a[i], &s.f): read the location it was taken from
			if len(lv.Path) == 0 {
				if sv, ok := x.expr(lv.Expr, st).(*StructV); ok {
					return sv.get(f.Name()), f.Type()
				}
			}
			x.abstractions["read through a pointer into an array element or field: value unconstrained"] = true
			return x.freshTyped(f.Type(), "viaptr", st), f.Type()
		}
		ref := cur.(Term)
		x.assertSafety(st, "nil", "nil pointer dereference (."+f.Name()+")", tNe(ref, tNil), pos)
		if x.skipField(f) {
			return &StructV{}, f.Type()
		}
		key := x.fieldKey(p.Elem(), f)
		x.accessCheck(st, key, ref, false, pos)
		return vSel(x.getHeap(st, key), ref), f.Type()
	}
	stt, ok := curT.Underlying().(*types.Struct)
	if !ok {
		panic("fieldStep on " + curT.String())
	}
	f := stt.Field(i)
	if x.skipField(f) {
		return &StructV{}, f.Type()
	}
	return cur.(*StructV).get(f.Name()), f.Type()
}

func (x *Exec) selector(e *ast.SelectorExpr, st *State) Value {
	sel := x.info.Selections[e]
	if sel == nil {
		// qualified identifier
		obj := x.info.Uses[e.Sel]
		switch o := obj.(type) {
		case *types.Const:
			return x.constValue(o.Val(), o.Type())
		case *types.Var:
			return x.getHeap(st, x.globalKey(o))
		case *types.Func:
			return FuncV{Fn: o}
		}
		x.unsupported(e, "qualified identifier %s", e.Sel.Name)
	}
	switch sel.Kind() {
	case types.FieldVal:
		cur := x.expr(e.X, st)
		curT := x.info.TypeOf(e.X)
		for _, i := range sel.Index() {
			cur, curT = x.fieldStep(cur, curT, i, st, e.Pos())
		}
		return cur
	case types.MethodVal:
		recv := x.methodRecv(e, sel, st)
		return FuncV{Fn: sel.Obj().(*types.Func), Recv: recv}
	}
	x.unsupported(e, "selector kind")
	return nil
}

// methodRecv evaluates the receiver for a method selection (following embedded fields).
func (x *Exec) methodRecv(e *ast.SelectorExpr, sel *types.Selection, st *State) Value {
	idx := sel.Index()
	fn := sel.Obj().(*types.Func)
	sig := fn.Type().(*types.Signature)
	wantPtr := false
	if sig.Recv() != nil {
		_, wantPtr = sig.Recv().Type().Underlying().(*types.Pointer)
		if _, isIface := sig.Recv().Type().Underlying().(*types.Interface); isIface {
			wantPtr = false
		}
	}
	curT := x.info.TypeOf(e.X)
	// &local needed?
	if len(idx) == 1 && wantPtr {
		if _, isPtr := curT.Underlying().(*types.Pointer); !isPtr {
			// addressable value receiver: pass a pointer to the location
			return x.addrOf(e.X, st)
		}
	}
	cur := x.expr(e.X, st)
	for _, i := range idx[:len(idx)-1] {
		cur, curT = x.fieldStep(cur, curT, i, st, e.Pos())
	}
	if wantPtr {
		if _, isPtr := curT.Underlying().(*types.Pointer); !isPtr {
			// embedded struct value reached through a pointer: unsupported except sync types handled by caller
			return LocV{Expr: e.X, Path: idx[:len(idx)-1]}
		}
		return cur
	}
	if p, isPtr := curT.Underlying().(*types.Pointer); isPtr {
		if _, recvIsIface := sig.Recv().Type().Underlying().(*types.Interface); !recvIsIface {
			// value receiver called through pointer: load the struct
			ref := cur.(Term)
			x.assertSafety(st, "nil", "nil pointer dereference (method value receiver)", tNe(ref, tNil), e.Pos())
			return x.loadDeref(st, p.Elem(), ref, e.Pos())
		}
	}
	return cur
}

// LocV denotes an addressable location (used for pointer receivers on struct values).
type LocV struct {
	Expr ast.Expr
	Path []int
}

func (x *Exec) addrOf(e ast.Expr, st *State) Value {
	switch e := e.(type) {
	case *ast.ParenExpr:
		return x.addrOf(e.X, st)
	case *ast.Ident:
		obj := x.info.ObjectOf(e)
		if v, ok := obj.(*types.Var); ok && v.Parent() != v.Pkg().Scope() {
			return PtrLocalV{Obj: obj}
		}
	case *ast.CompositeLit:
		return x.allocLit(e, st)
	}
	return LocV{Expr: e}
}

func (x *Exec) loadDeref(st *State, elemT types.Type, p Term, pos token.Pos) Value {
	if stt, ok := elemT.Underlying().(*types.Struct); ok {
		sv := &StructV{}
		for i := 0; i < stt.NumFields(); i++ {
			f := stt.Field(i)
			if x.skipField(f) {
				continue
			}
			key := x.fieldKey(elemT, f)
			x.accessCheck(st, key, p, false, pos)
			sv.Names = append(sv.Names, f.Name())
			sv.F = append(sv.F, vSel(x.getHeap(st, key), p))
		}
		return sv
	}
	key := x.boxKey(elemT)
	return vSel(x.getHeap(st, key), p)
}

func (x *Exec) storeDeref(st *State, elemT types.Type, p Term, v Value, pos token.Pos) {
	if stt, ok := elemT.Underlying().(*types.Struct); ok {
		sv := v.(*StructV)
		for i := 0; i < stt.NumFields(); i++ {
			f := stt.Field(i)
			if x.skipField(f) {
				continue
			}
			key := x.fieldKey(elemT, f)
			x.accessCheck(st, key, p, true, pos)
			x.setHeap(st, key, vSto(x.getHeap(st, key), p, sv.get(f.Name())))
		}
		return
	}
	key := x.boxKey(elemT)
	x.setHeap(st, key, vSto(x.getHeap(st, key), p, v))
}

func (x *Exec) indexTerm(e ast.Expr, st *State) Term {
	i := x.expr(e, st).(Term)
	is := x.idxSort()
	if i.T.K == SBV && is.K == SBV {
		return bvResize(i, is.W, isSigned(x.info.TypeOf(e)))
	}
	if i.T.K != is.K {
		x.unsupported(e, "index sort %s in %s mode", i.T, is)
	}
	return i
}

func (x *Exec) addIdx(a, b Term) Term {
	if a.T.K == SBV {
		if a.S == zeroOf(a.T).S {
			return b
		}
		if b.S == zeroOf(b.T).S {
			return a
		}
		return mk(a.T, "bvadd", a, b)
	}
	if a.S == "0" {
		return b
	}
	if b.S == "0" {
		return a
	}
	return mk(a.T, "+", a, b)
}

func (x *Exec) subIdx(a, b Term) Term {
	if b.S == zeroOf(b.T).S {
		return a
	}
	if a.T.K == SBV {
		return mk(a.T, "bvsub", a, b)
	}
	return mk(a.T, "-", a, b)
}

func (x *Exec) leIdx(a, b Term) Term {
	if a.T.K == SBV {
		return mk(sortBool, "bvsle", a, b)
	}
	return mk(sortBool, "<=", a, b)
}

func (x *Exec) ltIdx(a, b Term) Term {
	if a.T.K == SBV {
		return mk(sortBool, "bvslt", a, b)
	}
	return mk(sortBool, "<", a, b)
}

// boundsCheck asserts 0 <= i < n (i already widened to the index sort; idxT is its Go type).
func (x *Exec) boundsCheck(st *State, i, n Term, idxT types.Type, pos token.Pos) {
	var g Term
	if i.T.K == SBV {
		if isSigned(idxT) || idxT == nil {
			g = tAnd(mk(sortBool, "bvsle", zeroOf(i.T), i), mk(sortBool, "bvslt", i, n))
		} else {
			g = mk(sortBool, "bvult", i, n)
		}
	} else {
		g = tAnd(mk(sortBool, "<=", Term{"0", sortInt}, i), mk(sortBool, "<", i, n))
	}
	x.assertSafety(st, "index", "index out of range", g, pos)
}

func (x *Exec) index(e *ast.IndexExpr, st *State) Value {
	bt := x.info.TypeOf(e.X)
	switch u := bt.Underlying().(type) {
	case *types.Map:
		m := x.expr(e.X, st).(Term)
		k := x.convertAssign(x.expr(e.Index, st), x.info.TypeOf(e.Index), u.Key(), st).(Term)
		v, _ := x.mapLoad(st, u, m, k, e.Pos())
		return v
	case *types.Array:
		arr := x.expr(e.X, st)
		i := x.indexTerm(e.Index, st)
		x.boundsCheck(st, i, x.constOfSort(u.Len(), i.T), x.info.TypeOf(e.Index), e.Pos())
		return vSel(arr, i)
	case *types.Slice:
		sl := x.expr(e.X, st).(*StructV)
		i := x.indexTerm(e.Index, st)
		x.boundsCheck(st, i, sl.get("$len").(Term), x.info.TypeOf(e.Index), e.Pos())
		return vSel(sl.get("$arr"), x.addIdx(sl.get("$off").(Term), i))
	case *types.Pointer:
		if at, ok := u.Elem().Underlying().(*types.Array); ok {
			pv := x.expr(e.X, st)
			if pl, isPL := pv.(PtrLocalV); isPL {
				// pointer to a local array of a caller (an inlined helper was given &buf)
				i := x.indexTerm(e.Index, st)
				x.boundsCheck(st, i, x.constOfSort(at.Len(), i.T), x.info.TypeOf(e.Index), e.Pos())
				return vSel(st.vars[pl.Obj], i)
			}
			p := pv.(Term)
			x.assertSafety(st, "nil", "nil pointer dereference", tNe(p, tNil), e.Pos())
			arr := vSel(x.getHeap(st, x.boxKey(u.Elem())), p)
			i := x.indexTerm(e.Index, st)
			x.boundsCheck(st, i, x.constOfSort(at.Len(), i.T), x.info.TypeOf(e.Index), e.Pos())
			return vSel(arr, i)
		}
	case *types.Basic:
		if u.Info()&types.IsString != 0 {
			s := x.expr(e.X, st).(Term)
			i := x.indexTerm(e.Index, st)
			x.boundsCheck(st, i, x.strLen(s), x.info.TypeOf(e.Index), e.Pos())
			x.declSpecFun("str.at", []*Sort{sortStr, x.idxSort()}, sortBV(8))
			return mk(sortBV(8), "str.at", s, i)
		}
	}
	x.unsupported(e, "index on %s", bt)
	return nil
}

func (x *Exec) strLen(s Term) Term {
	x.declSpecFun("strlen", []*Sort{sortStr}, x.idxSort())
	return mk(x.idxSort(), "strlen", s)
}

func (x *Exec) declSpecFun(name string, args []*Sort, ret *Sort) {
	if x.specDecls[name] {
		return
	}
	x.specDecls[name] = true
	var as []string
	for _, a := range args {
		as = append(as, a.String())
	}
	x.vc.extraPrelude = append(x.vc.extraPrelude, fmt.Sprintf("(declare-fun %s (%s) %s)", name, strings.Join(as, " "), ret))
}

func (x *Exec) mapLoad(st *State, mt *types.Map, m, k Term, pos token.Pos) (Value, Term) {
	hasKey, valKey := x.mapKeys(mt)
	x.mapOwnCheck(st, mt, m, false, pos)
	has := tSelect(tSelect(x.getHeap(st, hasKey).(Term), m), k)
	// nil map reads as empty
	has = tAnd(tNe(m, tNil), has)
	val := vSel(vSel(x.getHeap(st, valKey), m), k)
	zero := x.zeroValue(mt.Elem())
	return x.vc.nameV("mapval", vIte(has, val, zero)), has
}

func (x *Exec) mapStore(st *State, mt *types.Map, m, k Term, v Value, pos token.Pos) {
	hasKey, valKey := x.mapKeys(mt)
	x.mapOwnCheck(st, mt, m, true, pos)
	hs := x.getHeap(st, hasKey).(Term)
	x.setHeap(st, hasKey, tStore(hs, m, tStore(tSelect(hs, m), k, tTrue)))
	vs := x.getHeap(st, valKey)
	x.setHeap(st, valKey, vSto(vs, m, vSto(vSel(vs, m), k, v)))
}

func (x *Exec) mapDelete(st *State, mt *types.Map, m, k Term, pos token.Pos) {
	hasKey, _ := x.mapKeys(mt)
	x.mapOwnCheck(st, mt, m, true, pos)
	hs := x.getHeap(st, hasKey).(Term)
	// delete on nil map is a no-op
	x.setHeap(st, hasKey, tIte(tEq(m, tNil), hs, tStore(hs, m, tStore(tSelect(hs, m), k, tFalse))))
}

func (x *Exec) mapOwnCheck(st *State, mt *types.Map, m Term, write bool, pos token.Pos) {
	x.accessCheck(st, "m:"+typeKey(mt.Key())+":"+typeKey(mt.Elem()), m, write, pos)
}

func (x *Exec) sliceExpr(e *ast.SliceExpr, st *State) Value {
	bt := x.info.TypeOf(e.X)
	is := x.idxSort()
	low := zeroOf(is)
	if e.Low != nil {
		low = x.indexTerm(e.Low, st)
	}
	switch u := bt.Underlying().(type) {
	case *types.Slice, *types.Array:
		var arr Value
		var off, ln Term
		if _, isArr := u.(*types.Array); isArr {
			arr = x.expr(e.X, st)
			off = zeroOf(is)
			ln = x.constOfSort(u.(*types.Array).Len(), is)
		} else {
			sl := x.expr(e.X, st).(*StructV)
			arr, off, ln = sl.get("$arr"), sl.get("$off").(Term), sl.get("$len").(Term)
		}
		high := ln
		if e.High != nil {
			high = x.indexTerm(e.High, st)
		}
		// 0 <= low <= high <= len (cap not modelled separately: len is used as the bound)
		if e.Max != nil {
			mx := x.indexTerm(e.Max, st)
			x.assertSafety(st, "slice", "slice bounds out of range (max)", tAnd(x.leIdx(high, mx), x.leIdx(mx, ln)), e.Pos())
		}
		x.assertSafety(st, "slice", "slice bounds out of range", tAnd(x.leIdx(zeroOf(is), low), x.leIdx(low, high), x.leIdx(high, ln)), e.Pos())
		return &StructV{Names: []string{"$arr", "$off", "$len"}, F: []Value{arr, x.addIdx(off, low), x.subIdx(high, low)}}
	case *types.Pointer:
		// (*[N]T)(unsafe.Pointer(&arr[i]))[:a:b] — a view into arr
		if v, ok := x.viewSlice(e, u, st); ok {
			return v
		}
		if at, ok := u.Elem().Underlying().(*types.Array); ok {
			p := x.expr(e.X, st).(Term)
			x.assertSafety(st, "nil", "nil pointer dereference", tNe(p, tNil), e.Pos())
			arr := vSel(x.getHeap(st, x.boxKey(u.Elem())), p)
			ln := x.constOfSort(at.Len(), is)
			high := ln
			if e.High != nil {
				high = x.indexTerm(e.High, st)
			}
			x.assertSafety(st, "slice", "slice bounds out of range", tAnd(x.leIdx(zeroOf(is), low), x.leIdx(low, high), x.leIdx(high, ln)), e.Pos())
			return &StructV{Names: []string{"$arr", "$off", "$len"}, F: []Value{arr, low, x.subIdx(high, low)}}
		}
	case *types.Basic:
		if u.Info()&types.IsString != 0 {
			s := x.expr(e.X, st).(Term)
			ln := x.strLen(s)
			high := ln
			if e.High != nil {
				high = x.indexTerm(e.High, st)
			}
			x.assertSafety(st, "slice", "string slice bounds out of range", tAnd(x.leIdx(zeroOf(is), low), x.leIdx(low, high), x.leIdx(high, ln)), e.Pos())
			x.declSpecFun("strsub", []*Sort{sortStr, is, is}, sortStr)
			return mk(sortStr, "strsub", s, low, high)
		}
	}
	x.unsupported(e, "slice expression on %s", bt)
	return nil
}

// viewSlice handles (*[N]byte)(unsafe.Pointer(&arr[i]))[:a:b].
func (x *Exec) viewSlice(e *ast.SliceExpr, pt *types.Pointer, st *State) (Value, bool) {
	inner := e.X
	for {
		if p, ok := inner.(*ast.ParenExpr); ok {
			inner = p.X
			continue
		}
		break
	}
	conv, ok := inner.(*ast.CallExpr)
	if !ok || len(conv.Args) != 1 {
		return nil, false
	}
	up, ok := conv.Args[0].(*ast.CallExpr)
	if !ok || len(up.Args) != 1 {
		return nil, false
	}
	if tv, ok := x.info.Types[up.Fun]; !ok || !tv.IsType() {
		return nil, false
	}
	if b, ok := x.info.TypeOf(up).Underlying().(*types.Basic); !ok || b.Kind() != types.UnsafePointer {
		return nil, false
	}
	un, ok := up.Args[0].(*ast.UnaryExpr)
	if !ok || un.Op != token.AND {
		return nil, false
	}
	ix, ok := un.X.(*ast.IndexExpr)
	if !ok {
		return nil, false
	}
	at, ok := x.info.TypeOf(ix.X).Underlying().(*types.Array)
	if !ok {
		return nil, false
	}
	vt := pt.Elem().Underlying().(*types.Array)
	is := x.idxSort()
	arr := x.expr(ix.X, st)
	i := x.indexTerm(ix.Index, st)
	n := x.constOfSort(at.Len(), is)
	x.boundsCheck(st, i, n, x.info.TypeOf(ix.Index), ix.Pos())
	low := zeroOf(is)
	if e.Low != nil {
		low = x.indexTerm(e.Low, st)
	}
	vn := x.constOfSort(vt.Len(), is)
	high := vn
	if e.High != nil {
		high = x.indexTerm(e.High, st)
	}
	mx := high
	if e.Max != nil {
		mx = x.indexTerm(e.Max, st)
	}
	x.assertSafety(st, "slice", "slice bounds out of range", tAnd(x.leIdx(zeroOf(is), low), x.leIdx(low, high), x.leIdx(high, mx), x.leIdx(mx, vn)), e.Pos())
	// the resliced extent stays inside the underlying array
	x.assertSafety(st, "view", "resliced view stays inside the buffer", x.leIdx(x.addIdx(i, mx), n), e.Pos())
	return &StructV{Names: []string{"$arr", "$off", "$len"}, F: []Value{arr, x.addIdx(i, low), x.subIdx(high, low)}}, true
}

func (x *Exec) unary(e *ast.UnaryExpr, st *State) Value {
	switch e.Op {
	case token.AND:
		if cl, ok := unparen(e.X).(*ast.CompositeLit); ok {
			return x.allocLit(cl, st)
		}
		return x.addrOf(e.X, st)
	case token.ARROW:
		return x.recv(e.X, st, e.Pos(), true)
	case token.NOT:
		return tNot(x.expr(e.X, st).(Term))
	case token.SUB:
		v := x.expr(e.X, st).(Term)
		if v.T.K == SBV {
			return mk(v.T, "bvneg", v)
		}
		return mk(v.T, "-", v)
	case token.XOR:
		v := x.expr(e.X, st).(Term)
		return mk(v.T, "bvnot", v)
	case token.ADD:
		return x.expr(e.X, st)
	}
	x.unsupported(e, "unary %s", e.Op)
	return nil
}

func unparen(e ast.Expr) ast.Expr {
	for {
		p, ok := e.(*ast.ParenExpr)
		if !ok {
			return e
		}
		e = p.X
	}
}

func (x *Exec) binary(e *ast.BinaryExpr, st *State) Value {
	if e.Op == token.LAND || e.Op == token.LOR {
		a := x.vc.name("c", x.expr(e.X, st).(Term))
		sb := st.clone()
		rest := st.clone()
		if e.Op == token.LAND {
			x.addPC(sb, a)
			x.addPC(rest, tNot(a))
		} else {
			x.addPC(sb, tNot(a))
			x.addPC(rest, a)
		}
		b := x.expr(e.Y, sb).(Term)
		st.set(x.merge(sb, rest))
		if e.Op == token.LAND {
			return tAnd(a, b)
		}
		return tOr(a, b)
	}
	lv := x.expr(e.X, st)
	rv := x.expr(e.Y, st)
	lt, rt := x.info.TypeOf(e.X), x.info.TypeOf(e.Y)
	switch e.Op {
	case token.EQL, token.NEQ:
		// slice == nil: slices carry no nil bit in this model; the answer is left open (it implies len == 0), which
		// over-approximates both outcomes
		if sl, other, ok := sliceVsNil(lv, rv); ok {
			_ = other
			b := x.vc.fresh("isnil", sortBool)
			x.assume(st, tImp(b, tEq(sl.get("$len").(Term), zeroOf(x.idxSort()))))
			if e.Op == token.NEQ {
				return tNot(b)
			}
			return b
		}
		lv, rv = x.unifyOperands(lv, rv, lt, rt, st)
		var r Term
		switch l := lv.(type) {
		case Term:
			r = tEq(l, rv.(Term))
		case *StructV:
			r = vEq(l, rv)
		default:
			x.unsupported(e, "comparison of %T", lv)
		}
		if e.Op == token.NEQ {
			r = tNot(r)
		}
		return r
	}
	l, ok1 := lv.(Term)
	r, ok2 := rv.(Term)
	if !ok1 || !ok2 {
		x.unsupported(e, "binary operator on composite values")
	}
	return x.binop(e.Op, l, r, lt, rt, e, st)
}

func (x *Exec) unifyOperands(lv, rv Value, lt, rt types.Type, st *State) (Value, Value) {
	l, lok := lv.(Term)
	r, rok := rv.(Term)
	if lok && rok && !l.T.Eq(r.T) {
		if l.T.isIntLike() && r.T.isIntLike() {
			return lv, rv
		}
		// error compared with an errno value
		if l.T.K == SErr && r.T.K == SBV {
			return lv, x.errnoOf(bvResize(r, 64, false))
		}
		if r.T.K == SErr && l.T.K == SBV {
			return x.errnoOf(bvResize(l, 64, false)), rv
		}
		// untyped nil against error / other zero-comparable sorts
		if r.S == "0" && r.T.K == SRef {
			return lv, zeroOf(l.T)
		}
		if l.S == "0" && l.T.K == SRef {
			return zeroOf(r.T), rv
		}
		// interface compared with concrete value etc.
		if l.T.K == SBV && r.T.K == SBV {
			w := l.T.W
			if r.T.W > w {
				w = r.T.W
			}
			return bvResize(l, w, isSigned(lt)), bvResize(r, w, isSigned(rt))
		}
		panic(fmt.Sprintf("cannot compare %s : %s with %s : %s", l.S, l.T, r.S, r.T))
	}
	return lv, rv
}

func (x *Exec) strCat(a, b Term) Term {
	if a.S == "str.empty" {
		return b
	}
	if b.S == "str.empty" {
		return a
	}
	if p, ok := x.catParts[a.S]; ok {
		return x.strCat(p[0], x.strCat(p[1], b))
	}
	t := mk(sortStr, "str.cat", a, b)
	x.catParts[t.S] = [2]Term{a, b}
	return t
}

func (x *Exec) binop(op token.Token, l, r Term, lt, rt types.Type, n ast.Node, st *State) Term {
	switch l.T.K {
	case SStr:
		switch op {
		case token.ADD:
			return x.strCat(l, r)
		}
		x.unsupported(n, "string operator %s", op)
	case SBool:
		switch op {
		case token.AND:
			return tAnd(l, r)
		case token.OR:
			return tOr(l, r)
		}
		x.unsupported(n, "bool operator %s", op)
	case SBV:
		signed := isSigned(lt)
		if op == token.SHL || op == token.SHR {
			r = bvResize(r, l.T.W, false)
			if op == token.SHL {
				return mk(l.T, "bvshl", l, r)
			}
			if signed {
				return mk(l.T, "bvashr", l, r)
			}
			return mk(l.T, "bvlshr", l, r)
		}
		if r.T.K != SBV || r.T.W != l.T.W {
			x.unsupported(n, "operand widths differ: %s vs %s", l.T, r.T)
		}
		switch op {
		case token.ADD, token.SUB, token.MUL, token.QUO, token.REM:
			return x.arith(op, l, r, lt, n, st)
		case token.AND:
			return mk(l.T, "bvand", l, r)
		case token.OR:
			return mk(l.T, "bvor", l, r)
		case token.XOR:
			return mk(l.T, "bvxor", l, r)
		case token.AND_NOT:
			return mk(l.T, "bvand", l, mk(l.T, "bvnot", r))
		case token.LSS:
			return mk(sortBool, pick(signed, "bvslt", "bvult"), l, r)
		case token.LEQ:
			return mk(sortBool, pick(signed, "bvsle", "bvule"), l, r)
		case token.GTR:
			return mk(sortBool, pick(signed, "bvsgt", "bvugt"), l, r)
		case token.GEQ:
			return mk(sortBool, pick(signed, "bvsge", "bvuge"), l, r)
		}
	case SInt:
		switch op {
		case token.ADD, token.SUB, token.MUL, token.QUO, token.REM:
			return x.arith(op, l, r, lt, n, st)
		case token.LSS:
			return mk(sortBool, "<", l, r)
		case token.LEQ:
			return mk(sortBool, "<=", l, r)
		case token.GTR:
			return mk(sortBool, ">", l, r)
		case token.GEQ:
			return mk(sortBool, ">=", l, r)
		}
	}
	x.unsupported(n, "operator %s on %s", op, l.T)
	return Term{}
}

func pick(c bool, a, b string) string {
	if c {
		return a
	}
	return b
}

const (
	minInt64S = "(- 9223372036854775808)"
	maxInt64S = "9223372036854775807"
)

func (x *Exec) arith(op token.Token, l, r Term, t types.Type, n ast.Node, st *State) Term {
	pos := token.NoPos
	if n != nil {
		pos = n.Pos()
	}
	if l.T.K == SBV {
		signed := isSigned(t)
		switch op {
		case token.ADD:
			return mk(l.T, "bvadd", l, r)
		case token.SUB:
			return mk(l.T, "bvsub", l, r)
		case token.MUL:
			return mk(l.T, "bvmul", l, r)
		case token.QUO:
			x.assertSafety(st, "div", "division by zero", tNe(r, zeroOf(r.T)), pos)
			return mk(l.T, pick(signed, "bvsdiv", "bvudiv"), l, r)
		case token.REM:
			x.assertSafety(st, "div", "division by zero", tNe(r, zeroOf(r.T)), pos)
			return mk(l.T, pick(signed, "bvsrem", "bvurem"), l, r)
		}
	}
	// mathematical integers with a no-overflow obligation
	var res Term
	switch op {
	case token.ADD:
		res = mk(sortInt, "+", l, r)
	case token.SUB:
		res = mk(sortInt, "-", l, r)
	case token.MUL:
		res = mk(sortInt, "*", l, r)
	case token.QUO:
		x.assertSafety(st, "div", "division by zero", tNe(r, Term{"0", sortInt}), pos)
		// Go truncates toward zero
		q := mk(sortInt, "div", mk(sortInt, "abs", l), mk(sortInt, "abs", r))
		neg := tNe(mk(sortBool, "<", l, Term{"0", sortInt}), mk(sortBool, "<", r, Term{"0", sortInt}))
		return tIte(neg, mk(sortInt, "-", q), q)
	case token.REM:
		x.assertSafety(st, "div", "division by zero", tNe(r, Term{"0", sortInt}), pos)
		m := mk(sortInt, "mod", mk(sortInt, "abs", l), mk(sortInt, "abs", r))
		return tIte(mk(sortBool, "<", l, Term{"0", sortInt}), mk(sortInt, "-", m), m)
	}
	x.assertSafety(st, "overflow", "integer overflow", tAnd(mk(sortBool, "<=", Term{minInt64S, sortInt}, res), mk(sortBool, "<=", res, Term{maxInt64S, sortInt})), pos)
	return res
}

// convertAssign adapts a value of type from to a location of type to (interfaces, untyped nil).
func (x *Exec) convertAssign(v Value, from, to types.Type, st *State) Value {
	if from == nil || to == nil {
		return v
	}
	t, ok := v.(Term)
	if !ok {
		return v
	}
	ts := x.scalarSort(to)
	if ts == nil {
		if b, ok := from.Underlying().(*types.Basic); ok && b.Kind() == types.UntypedNil {
			return x.zeroValue(to)
		}
		return v
	}
	if t.T.Eq(ts) {
		return v
	}
	// nil to anything scalar
	if b, ok := from.Underlying().(*types.Basic); ok && b.Kind() == types.UntypedNil {
		return zeroOf(ts)
	}
	// concrete -> interface
	if _, isIface := to.Underlying().(*types.Interface); isIface {
		if isErrorType(to) {
			// syscall.Errno and friends become errors
			if t.T.K == SBV || t.T.K == SInt {
				var it Term
				if t.T.K == SBV {
					it = x.errnoOf(t)
				} else {
					it = mk(sortErr, "errno", t)
				}
				return it
			}
			if t.T.K == SRef {
				// pointer type implementing error: opaque error tied to the ref
				x.declSpecFun("err.ofref", []*Sort{sortInt}, sortErr)
				return mk(sortErr, "err.ofref", t)
			}
		}
		if t.T.K == SRef {
			return t
		}
		// box a non-pointer value into an opaque interface ref
		return x.vc.fresh("iface", sortRef)
	}
	if t.T.isIntLike() && ts.isIntLike() {
		t.T = ts
		return t
	}
	return v
}

func (x *Exec) errnoOf(bv Term) Term {
	x.declSpecFun("errno.bv", []*Sort{bv.T}, sortErr)
	return mk(sortErr, "errno.bv", bv)
}

// conversion T(v)
func (x *Exec) convert(e *ast.CallExpr, st *State) Value {
	to := x.info.TypeOf(e.Fun)
	arg := e.Args[0]
	from := x.info.TypeOf(arg)
	// (*T)(unsafe.Pointer(&arr[i])): a view
	if pt, ok := to.Underlying().(*types.Pointer); ok {
		if v, ok := x.viewPointer(e, pt, st); ok {
			return v
		}
	}
	v := x.expr(arg, st)
	ts := x.scalarSort(to)
	t, isT := v.(Term)
	switch {
	case isString(to) && isSlice(v):
		// string(bytes)
		sl := v.(*StructV)
		arr := sl.get("$arr").(Term)
		x.declSpecFun("bytes2str", []*Sort{arr.T, x.idxSort(), x.idxSort()}, sortStr)
		return mk(sortStr, "bytes2str", arr, sl.get("$off").(Term), sl.get("$len").(Term))
	case isT && ts != nil && t.T.K == SBV && ts.K == SBV:
		return bvResize(t, ts.W, isSigned(from))
	case isT && ts != nil && t.T.Eq(ts):
		return v
	case isT && ts != nil && t.T.isIntLike() && ts.isIntLike():
		t.T = ts
		return t
	case !isT:
		// struct-to-struct conversion of identical underlying types
		return v
	case isT && ts != nil && ts.K == SStr && t.T.K == SBV:
		x.declSpecFun("str.ofrune", []*Sort{t.T}, sortStr)
		return mk(sortStr, "str.ofrune", t)
	}
	if ts != nil {
		return x.convertAssign(v, from, to, st)
	}
	x.unsupported(e, "conversion %s -> %s", from, to)
	return nil
}

// viewPointer handles (*T)(unsafe.Pointer(&arr[i])) for struct T of fixed-width integer fields.
func (x *Exec) viewPointer(e *ast.CallExpr, pt *types.Pointer, st *State) (Value, bool) {
	up, ok := unparen(e.Args[0]).(*ast.CallExpr)
	if !ok || len(up.Args) != 1 {
		return nil, false
	}
	if b, ok := x.info.TypeOf(up).Underlying().(*types.Basic); !ok || b.Kind() != types.UnsafePointer {
		return nil, false
	}
	un, ok := unparen(up.Args[0]).(*ast.UnaryExpr)
	if !ok || un.Op != token.AND {
		return nil, false
	}
	ix, ok := un.X.(*ast.IndexExpr)
	if !ok {
		return nil, false
	}
	stt, ok := pt.Elem().Underlying().(*types.Struct)
	if !ok {
		return nil, false
	}
	is := x.idxSort()
	var arr, i, n Term
	switch ct := x.info.TypeOf(ix.X).Underlying().(type) {
	case *types.Array:
		a, isTerm := x.expr(ix.X, st).(Term)
		if !isTerm {
			return nil, false
		}
		arr = a
		i = x.indexTerm(ix.Index, st)
		n = x.constOfSort(ct.Len(), is)
		x.boundsCheck(st, i, n, x.info.TypeOf(ix.Index), ix.Pos())
	case *types.Slice:
		// a view into the array behind a byte slice: positions are relative to the slice's offset
		sl, isSl := x.expr(ix.X, st).(*StructV)
		if !isSl || !isSlice(sl) {
			return nil, false
		}
		a, isTerm := sl.get("$arr").(Term)
		if !isTerm {
			return nil, false
		}
		arr = a
		rel := x.indexTerm(ix.Index, st)
		ln := sl.get("$len").(Term)
		x.boundsCheck(st, rel, ln, x.info.TypeOf(ix.Index), ix.Pos())
		off := sl.get("$off").(Term)
		i = x.addIdx(off, rel)
		n = x.addIdx(off, ln)
	default:
		return nil, false
	}
	// lay out fields little-endian
	sizes := types.SizesFor("gc", "amd64")
	offs := sizes.Offsetsof(fieldsOf(stt))
	total := sizes.Sizeof(pt.Elem())
	x.assertSafety(st, "view", fmt.Sprintf("the %d-byte view stays inside the buffer", total), x.leIdx(x.addIdx(i, x.constOfSort(total, is)), n), e.Pos())
	r := x.alloc(st, "view")
	for fi := 0; fi < stt.NumFields(); fi++ {
		f := stt.Field(fi)
		fs := x.scalarSort(f.Type())
		if fs == nil || fs.K != SBV {
			continue // e.g. trailing [0]byte
		}
		nb := fs.W / 8
		var bytes []string
		for b := nb - 1; b >= 0; b-- {
			bytes = append(bytes, tSelect(arr, x.addIdx(i, x.constOfSort(offs[fi]+int64(b), is))).S)
		}
		val := Term{bytes[0], fs}
		if nb > 1 {
			val = Term{"(concat " + strings.Join(bytes, " ") + ")", fs}
		}
		key := x.fieldKey(pt.Elem(), f)
		x.setHeap(st, key, vSto(x.getHeap(st, key), r, x.vc.name("view."+f.Name(), val)))
	}
	return r, true
}

func fieldsOf(s *types.Struct) []*types.Var {
	var fs []*types.Var
	for i := 0; i < s.NumFields(); i++ {
		fs = append(fs, s.Field(i))
	}
	return fs
}

// alloc returns a fresh non-nil reference distinct from every allocated one.
func (x *Exec) alloc(st *State, hint string) Term {
	x.registerHeap("alloc", func() Value { return x.vc.freshBase("alloc", sortInt) })
	a := x.getHeap(st, "alloc").(Term)
	r := x.vc.fresh(hint, sortRef)
	x.assume(st, tAnd(tEq(r, a), mk(sortBool, ">", a, Term{"0", sortInt})))
	na := x.vc.fresh("alloc", sortInt)
	x.assume(st, tEq(na, mk(sortInt, "+", a, Term{"1", sortInt})))
	x.setHeap(st, "alloc", na)
	st.local[r.S] = true
	return r
}

func (x *Exec) allocatedTerm(st *State, r Term) Term {
	x.registerHeap("alloc", func() Value { return x.vc.freshBase("alloc", sortInt) })
	a := x.getHeap(st, "alloc").(Term)
	return tAnd(mk(sortBool, "<", Term{"0", sortInt}, r), mk(sortBool, "<", r, a))
}

func (x *Exec) compositeLit(e *ast.CompositeLit, st *State) Value {
	t := x.info.TypeOf(e)
	switch u := t.Underlying().(type) {
	case *types.Struct:
		sv := x.zeroValue(t).(*StructV)
		for i, el := range e.Elts {
			if kv, ok := el.(*ast.KeyValueExpr); ok {
				name := kv.Key.(*ast.Ident).Name
				f := lookupField(u, name)
				sv = sv.with(name, x.convertAssign(x.expr(kv.Value, st), x.info.TypeOf(kv.Value), f.Type(), st))
			} else {
				f := u.Field(i)
				sv = sv.with(f.Name(), x.convertAssign(x.expr(el, st), x.info.TypeOf(el), f.Type(), st))
			}
		}
		return sv
	case *types.Slice:
		is := x.idxSort()
		arr := x.mkValue(u.Elem(), []*Sort{is}, "lit", func(s *Sort, _ string) Term { return zeroOf(s) })
		for i, el := range e.Elts {
			if _, ok := el.(*ast.KeyValueExpr); ok {
				x.unsupported(e, "keyed slice literal")
			}
			arr = vSto(arr, x.constOfSort(int64(i), is), x.convertAssign(x.expr(el, st), x.info.TypeOf(el), u.Elem(), st))
		}
		return &StructV{Names: []string{"$arr", "$off", "$len"}, F: []Value{arr, zeroOf(is), x.constOfSort(int64(len(e.Elts)), is)}}
	case *types.Array:
		is := x.idxSort()
		arr := x.zeroValue(t)
		for i, el := range e.Elts {
			if _, ok := el.(*ast.KeyValueExpr); ok {
				x.unsupported(e, "keyed array literal")
			}
			arr = vSto(arr, x.constOfSort(int64(i), is), x.convertAssign(x.expr(el, st), x.info.TypeOf(el), u.Elem(), st))
		}
		return arr
	case *types.Map:
		if len(e.Elts) == 0 {
			return x.makeMap(u, st)
		}
	}
	x.unsupported(e, "composite literal of %s", t)
	return nil
}

func lookupField(s *types.Struct, name string) *types.Var {
	for i := 0; i < s.NumFields(); i++ {
		if s.Field(i).Name() == name {
			return s.Field(i)
		}
	}
	panic("no field " + name)
}

// allocLit: &T{...}
func (x *Exec) allocLit(e *ast.CompositeLit, st *State) Value {
	t := x.info.TypeOf(e)
	v := x.compositeLit(e, st)
	r := x.alloc(st, structName(t))
	if stt, ok := t.Underlying().(*types.Struct); ok {
		sv := v.(*StructV)
		for i := 0; i < stt.NumFields(); i++ {
			f := stt.Field(i)
			if x.skipField(f) {
				continue
			}
			key := x.fieldKey(t, f)
			x.setHeap(st, key, vSto(x.getHeap(st, key), r, sv.get(f.Name())))
			// a channel made here and stored in an externally-closable field starts open
			if a := x.prog.Contracts.Chans[structName(t)+"."+f.Name()]; a != nil && a.ExtClose {
				if cv, ok := sv.get(f.Name()).(Term); ok && st.local[cv.S] {
					x.setHeap(st, x.xclosedKey(structName(t)+"."+f.Name()), tFalse)
				}
			}
		}
		for _, tok := range x.prog.Contracts.AllocGrants[structName(t)] {
			x.setHeap(st, x.tokKey(tok), tTrue)
		}
		return r
	}
	key := x.boxKey(t)
	x.setHeap(st, key, vSto(x.getHeap(st, key), r, v))
	return r
}

func (x *Exec) makeMap(mt *types.Map, st *State) Value {
	hasKey, _ := x.mapKeys(mt)
	r := x.alloc(st, "map")
	hs := x.getHeap(st, hasKey).(Term)
	x.setHeap(st, hasKey, tStore(hs, r, zeroOf(hs.T.Elem)))
	return r
}


// baseLeaf makes the base (initial, unknown) value of a heap leaf. The offset
// of an unknown slice is normalised to 0: (arr, off, len) is observationally
// the same as (arr', 0, len) under the value semantics used for slices.
func (x *Exec) baseLeaf(s *Sort, p string) Term {
	if strings.HasSuffix(p, ".$off") {
		return zeroOf(s)
	}
	return x.vc.freshBase(p, s)
}


// sliceVsNil: one operand is a slice value and the other the nil constant.
func sliceVsNil(a, b Value) (*StructV, Value, bool) {
	isNil := func(v Value) bool {
		switch t := v.(type) {
		case Term:
			return t.S == "0" && t.T.K == SRef
		case ConstV:
			return t.V != nil && t.V.Kind() == constant.Int && t.V.ExactString() == "0"
		}
		return false
	}
	if sa, ok := a.(*StructV); ok && isSlice(sa) && isNil(b) {
		return sa, b, true
	}
	if sb, ok := b.(*StructV); ok && isSlice(sb) && isNil(a) {
		return sb, a, true
	}
	return nil, nil, false
}
