package main

import (
	"os/exec"
	"strings"
	"syscall"
	"time"
)

// The real-kernel scenarios need inotify instances, and a user may hold only fs.inotify.max_user_instances (128 here)
// of them: when other processes of the same user (a test-suite running beside the check, another check's scenarios)
// have used them up, NewWatcher fails with EMFILE in code that is perfectly fine. That is a fact about the machine, not
// about the tree under check, so a scenario is only started when a probe finds headroom, and a failure that names
// resource exhaustion is only believed if the probe still finds headroom right after it.

// inotifyHeadroom reports whether this user can create 16 more inotify instances right now.
func inotifyHeadroom() bool {
	var fds []int
	ok := true
	for i := 0; i < 16; i++ {
		fd, err := syscall.InotifyInit1(syscall.IN_CLOEXEC)
		if err != nil {
			ok = false
			break
		}
		fds = append(fds, fd)
	}
	for _, fd := range fds {
		syscall.Close(fd)
	}
	return ok
}

func waitInotifyHeadroom(max time.Duration) bool {
	deadline := time.Now().Add(max)
	for {
		if inotifyHeadroom() {
			return true
		}
		if time.Now().After(deadline) {
			return false
		}
		time.Sleep(2 * time.Second)
	}
}

func looksLikeExhaustion(out string) bool {
	return strings.Contains(out, "too many open files") || strings.Contains(out, "no space left on device") || strings.Contains(out, "cannot allocate memory")
}

// runGoTestEnv runs the command made by mk; a failure whose output names resource exhaustion while the probe finds no
// headroom is retried (up to 2 times, waiting for headroom each time). envFail is true when the last failure is still
// of that kind: the caller must not count it against the tree.
func runGoTestEnv(mk func() *exec.Cmd) (out string, err error, envFail bool) {
	for try := 0; ; try++ {
		if try == 0 {
			waitInotifyHeadroom(30 * time.Second)
		} else {
			waitInotifyHeadroom(10 * time.Second)
		}
		cmd := mk()
		b, e := cmd.CombinedOutput()
		out, err = string(b), e
		if e == nil || !looksLikeExhaustion(out) {
			return out, err, false
		}
		if inotifyHeadroom() && try >= 1 {
			// there is room now and it failed the same way twice: the code under test uses the resources up itself
			return out, err, false
		}
		if try >= 2 {
			return out, err, true
		}
		time.Sleep(3 * time.Second)
	}
}
