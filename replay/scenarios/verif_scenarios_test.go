package fsnotify

// Scenario replays for recorded findings and fixed defects, driven against the
// real kernel. This file lives in /verif and is injected into the package with
// `go test -overlay` (nothing is written to /repo). Each test PASSES when the
// property holds for its history and FAILS when the defect is present.

import (
	"errors"
	"fmt"
	"os"
	"path/filepath"
	"sort"
	"strings"
	"sync"
	"testing"
	"time"
)

func vsKernelWatches(t *testing.T, w *Watcher) int {
	t.Helper()
	fd := w.b.(*inotify).fd
	b, err := os.ReadFile(fmt.Sprintf("/proc/self/fdinfo/%d", fd))
	if err != nil {
		t.Fatal(err)
	}
	return strings.Count(string(b), "inotify wd:")
}

func vsDrain(w *Watcher, d time.Duration) (evs []Event, errs []error) {
	tm := time.After(d)
	for {
		select {
		case e, ok := <-w.Events:
			if !ok {
				return
			}
			evs = append(evs, e)
		case e, ok := <-w.Errors:
			if !ok {
				return
			}
			errs = append(errs, e)
		case <-tm:
			return
		}
	}
}

func vsList(w *Watcher) []string { l := w.WatchList(); sort.Strings(l); return l }

// F1 (C04 C07 C12): a listed path re-pointed at a file that is watched under another name.
func TestVerifScenario_F1(t *testing.T) {
	tmp := t.TempDir()
	f1, f2, link := filepath.Join(tmp, "f1"), filepath.Join(tmp, "f2"), filepath.Join(tmp, "link")
	touch(t, f1)
	touch(t, f2)
	symlink(t, f1, link)
	w := newWatcher(t)
	defer w.Close()
	go func() { vsDrain(w, 3*time.Second) }()
	addWatch(t, w, link)
	addWatch(t, w, f2)
	rm(t, link)
	symlink(t, f2, link)
	if err := w.Add(link); err != nil {
		t.Fatal(err)
	}
	if got, want := vsList(w), []string{f2}; fmt.Sprint(got) != fmt.Sprint(want) {
		t.Errorf("WatchList %v, want %v (the file is listed under the name it was first added as; the re-pointed path's old watch is released)", got, want)
	}
	if k, l := vsKernelWatches(t, w), len(w.WatchList()); k != l {
		t.Errorf("%d kernel watches for %d listed paths", k, l)
	}
	func() {
		defer func() {
			if r := recover(); r != nil {
				t.Errorf("Remove panicked: %v", r)
			}
		}()
		if err := w.Remove(link); !errors.Is(err, ErrNonExistentWatch) {
			t.Errorf("Remove(link) = %v, want ErrNonExistentWatch", err)
		}
	}()
}

// F2 (C12): re-Add of a path whose previous inode is kept alive by a hard link.
func TestVerifScenario_F2(t *testing.T) {
	tmp := t.TempDir()
	f, g := filepath.Join(tmp, "f"), filepath.Join(tmp, "g")
	touch(t, f)
	if err := os.Link(f, g); err != nil {
		t.Fatal(err)
	}
	w := newWatcher(t)
	defer w.Close()
	go func() { vsDrain(w, 3*time.Second) }()
	addWatch(t, w, f)
	rm(t, f)
	touch(t, f)
	addWatch(t, w, f)
	if k := vsKernelWatches(t, w); k != 1 {
		t.Errorf("after re-Add: %d kernel watches for 1 listed path", k)
	}
	if err := w.Remove(f); err != nil {
		t.Errorf("Remove: %v", err)
	}
	if k := vsKernelWatches(t, w); k != 0 {
		t.Errorf("after Remove: %d kernel watches survive, WatchList=%v", k, w.WatchList())
	}
}

// F3/F4 (C04 C05 C10): rename-then-delete of a watched file while the reader is parked.
func TestVerifScenario_F3(t *testing.T) {
	tmp := t.TempDir()
	f, g, other := filepath.Join(tmp, "f"), filepath.Join(tmp, "g"), filepath.Join(tmp, "other")
	touch(t, f)
	touch(t, other)
	w := newWatcher(t)
	defer w.Close()
	addWatch(t, w, f)
	addWatch(t, w, other)
	echoAppend(t, "x", other) // parks the reader on the unbuffered Events channel
	time.Sleep(100 * time.Millisecond)
	mv(t, f, g)
	rm(t, g)
	time.Sleep(100 * time.Millisecond)
	var evs []Event
	tm := time.After(1500 * time.Millisecond)
loop:
	for {
		select {
		case e := <-w.Events: // only Events is read
			evs = append(evs, e)
		case <-tm:
			break loop
		}
	}
	done := make(chan []string, 1)
	go func() { done <- w.WatchList() }()
	select {
	case <-done:
	case <-time.After(2 * time.Second):
		t.Errorf("WatchList blocked for 2s while nobody reads Errors")
	}
	select {
	case err := <-w.Errors:
		t.Errorf("ordinary rename-then-delete produced a value on Errors: %v (events: %v)", err, evs)
	case <-time.After(300 * time.Millisecond):
	}
}

// F5 (C01 C09): IN_DELETE_SELF suppressed although the real parent directory is not watched.
func TestVerifScenario_F5(t *testing.T) {
	tmp := t.TempDir()
	a, b := filepath.Join(tmp, "a"), filepath.Join(tmp, "b")
	mkdir(t, a)
	mkdir(t, b)
	file, link := filepath.Join(b, "file"), filepath.Join(a, "link")
	touch(t, file)
	symlink(t, file, link)
	w := newWatcher(t)
	defer w.Close()
	addWatch(t, w, a)
	addWatch(t, w, link)
	rm(t, file)
	evs, errs := vsDrain(w, time.Second)
	if len(errs) > 0 {
		t.Errorf("errors: %v", errs)
	}
	removed := false
	for _, e := range evs {
		if e.Has(Remove) {
			removed = true
		}
	}
	if !removed {
		t.Errorf("the watched file was deleted but no Remove event was reported by anyone; events: %v", evs)
	}
}

// F6a (C19): removing the recursive watch on dir1 also removed the watch on its sibling dir10.
func TestVerifScenario_F6a(t *testing.T) {
	old := enableRecurse
	enableRecurse = true
	defer func() { enableRecurse = old }()
	tmp := t.TempDir()
	d1, d10 := filepath.Join(tmp, "dir1"), filepath.Join(tmp, "dir10")
	mkdirAll(t, d1, "sub")
	mkdir(t, d10)
	w := newWatcher(t)
	defer w.Close()
	go func() { vsDrain(w, 3*time.Second) }()
	addWatch(t, w, filepath.Join(d1, "..."))
	addWatch(t, w, d10)
	if err := w.Remove(filepath.Join(d1, "...")); err != nil {
		t.Fatal(err)
	}
	if got, want := vsList(w), []string{d10}; fmt.Sprint(got) != fmt.Sprint(want) {
		t.Errorf("WatchList after removing the recursive watch on dir1: %v, want %v", got, want)
	}
}

// F6c (C19): after a directory is renamed inside a recursive tree the bookkeeping keeps the old paths as keys.
func TestVerifScenario_F6c(t *testing.T) {
	old := enableRecurse
	enableRecurse = true
	defer func() { enableRecurse = old }()
	tmp := t.TempDir()
	mkdirAll(t, tmp, "sub", "dir")
	w := newWatcher(t)
	defer w.Close()
	addWatch(t, w, filepath.Join(tmp, "..."))
	go func() { vsDrain(w, 3*time.Second) }()
	mv(t, filepath.Join(tmp, "sub"), filepath.Join(tmp, "sub-rename"))
	time.Sleep(500 * time.Millisecond)
	got := vsList(w)
	want := []string{tmp, filepath.Join(tmp, "sub-rename"), filepath.Join(tmp, "sub-rename", "dir")}
	sort.Strings(want)
	if fmt.Sprint(got) != fmt.Sprint(want) {
		t.Errorf("WatchList after the rename: %v, want the true current paths %v", got, want)
	}
	// the two tables must describe the same watches
	in := w.b.(*inotify)
	in.mu.Lock()
	for p, wd := range in.watches.path {
		if ww := in.watches.wd[wd]; ww == nil || ww.path != p {
			t.Errorf("path table key %q -> wd %d, whose watch says %v", p, wd, ww)
		}
	}
	in.mu.Unlock()
}

// F4b (C05): in the recursive branch handleEvent reports a failed registration of a new directory on Errors
// while it still holds the Watcher's mutex; with nobody receiving from Errors the reader parks there and
// Remove / Add / WatchList block behind it.
func TestVerifScenario_F4b(t *testing.T) {
	old := enableRecurse
	enableRecurse = true
	defer func() { enableRecurse = old }()
	tmp := t.TempDir()
	w := newWatcher(t)
	addWatch(t, w, filepath.Join(tmp, "..."))
	in := w.b.(*inotify)
	// make the reader find the new directory gone again: hold the mutex while it is created and removed
	in.mu.Lock()
	if err := os.Mkdir(filepath.Join(tmp, "gone"), 0o755); err != nil {
		t.Fatal(err)
	}
	if err := os.Remove(filepath.Join(tmp, "gone")); err != nil {
		t.Fatal(err)
	}
	time.Sleep(200 * time.Millisecond) // the reader has read the records and waits for the mutex
	in.mu.Unlock()
	time.Sleep(300 * time.Millisecond) // nobody receives from Errors (Events is not the channel in question)
	done := make(chan struct{})
	go func() { w.WatchList(); close(done) }()
	select {
	case <-done:
	case <-time.After(3 * time.Second):
		t.Errorf("WatchList did not return within 3s: the reader is parked in sendError with the mutex held (no one receives from Errors)")
	}
	// let everything go
	go func() {
		for range w.Errors {
		}
	}()
	go func() {
		for range w.Events {
		}
	}()
	w.Close()
}

// ---- regression scenarios for the recursive branch of handleEvent (C19), which is not under contract

func vsCollect(w *Watcher) (stop func() []Event) {
	done := make(chan struct{})
	out := make(chan []Event, 1)
	go func() {
		var evs []Event
		for {
			select {
			case e, ok := <-w.Events:
				if !ok {
					out <- evs
					return
				}
				evs = append(evs, e)
			case <-w.Errors:
			case <-done:
				out <- evs
				return
			}
		}
	}()
	return func() []Event { close(done); return <-out }
}

func vsHasCreate(evs []Event, name string) bool {
	for _, e := range evs {
		if e.Name == name && e.Has(Create) {
			return true
		}
	}
	return false
}

// a directory created inside a recursive tree is covered once its own Create has been delivered
func TestVerifScenario_C19_NewDirCovered(t *testing.T) {
	old := enableRecurse
	enableRecurse = true
	defer func() { enableRecurse = old }()
	tmp := t.TempDir()
	w := newWatcher(t)
	defer w.Close()
	addWatch(t, w, filepath.Join(tmp, "..."))
	stop := vsCollect(w)
	mkdir(t, tmp, "new")
	time.Sleep(300 * time.Millisecond)
	touch(t, tmp, "new", "file")
	time.Sleep(500 * time.Millisecond)
	evs := stop()
	if !vsHasCreate(evs, filepath.Join(tmp, "new")) || !vsHasCreate(evs, filepath.Join(tmp, "new", "file")) {
		t.Errorf("want Create for new and new/file, have %v", evs)
	}
}

// a directory renamed (twice) inside the tree: it and its descendants are reported under the new location,
// an unrelated sibling keeps its name
func TestVerifScenario_C19_RenameTwice(t *testing.T) {
	old := enableRecurse
	enableRecurse = true
	defer func() { enableRecurse = old }()
	tmp := t.TempDir()
	mkdirAll(t, tmp, "sub", "dir", "deep")
	mkdir(t, tmp, "subx")
	w := newWatcher(t)
	defer w.Close()
	addWatch(t, w, filepath.Join(tmp, "..."))
	stop := vsCollect(w)
	mv(t, filepath.Join(tmp, "sub"), filepath.Join(tmp, "one"))
	time.Sleep(300 * time.Millisecond)
	mv(t, filepath.Join(tmp, "one"), filepath.Join(tmp, "two"))
	time.Sleep(300 * time.Millisecond)
	touch(t, tmp, "two", "f1")
	touch(t, tmp, "two", "dir", "f2")
	touch(t, tmp, "two", "dir", "deep", "f3")
	touch(t, tmp, "subx", "f4")
	time.Sleep(500 * time.Millisecond)
	evs := stop()
	for _, want := range []string{"two/f1", "two/dir/f2", "two/dir/deep/f3", "subx/f4"} {
		if !vsHasCreate(evs, filepath.Join(tmp, want)) {
			t.Errorf("no Create for %s under its true current path; events: %v", want, evs)
		}
	}
}

// ---- regression scenario for C07/C04 (demonstration of a seeded change: the existence check and the removal of
// Remove in two critical sections); uses the public API and the Watcher's mutex only
// A few goroutines call Remove() for the same watched path at the same time:
// exactly one of them may succeed, the other one must get ErrNonExistentWatch.
//
// The calls are started together from a barrier and the whole thing is repeated
// a few hundred times; in most of the trials the watcher's lock is held by the
// test while the calls are started, so that they enter Remove() back to back
// once the lock is released.
func TestVerifScenario_C07_ConcurrentRemove(t *testing.T) {
	enable := enableRecurse
	enableRecurse = false // Released configuration.
	defer func() { enableRecurse = enable }()

	tmp := t.TempDir()

	w, err := NewWatcher()
	if err != nil {
		t.Fatal(err)
	}
	defer w.Close()
	go func() {
		for {
			select {
			case _, ok := <-w.Events:
				if !ok {
					return
				}
			case _, ok := <-w.Errors:
				if !ok {
					return
				}
			}
		}
	}()
	in := w.b.(*inotify)

	const callers = 2
	for trial := 0; trial < 300; trial++ {
		if err := w.Add(tmp); err != nil {
			t.Fatal(err)
		}

		hold := trial%3 != 0
		if hold {
			in.mu.Lock()
		}

		var (
			wg    sync.WaitGroup
			start = make(chan struct{})
			errs  [callers]error
		)
		for i := 0; i < callers; i++ {
			wg.Add(1)
			go func(i int) {
				defer wg.Done()
				<-start
				errs[i] = w.Remove(tmp)
			}(i)
		}
		close(start)
		if hold {
			// Both callers are now queued on the lock. Release it and take it
			// right back, before the first waiter has woken up: that waiter
			// has then been waiting for more than 1ms and failed to get the
			// lock, which puts the sync.Mutex in "starvation mode", where the
			// lock is handed from waiter to waiter in strict FIFO order
			// instead of whoever happens to be running grabbing it. So the
			// two Remove() calls alternate their critical sections.
			time.Sleep(3 * time.Millisecond)
			in.mu.Unlock()
			in.mu.Lock()
			time.Sleep(3 * time.Millisecond)
			in.mu.Unlock()
		}
		wg.Wait()

		var okay, nonexist int
		for _, err := range errs {
			switch {
			case err == nil:
				okay++
			case errors.Is(err, ErrNonExistentWatch):
				nonexist++
			default:
				t.Fatalf("trial %d: unexpected error: %v", trial, err)
			}
		}
		if okay != 1 || nonexist != callers-1 {
			t.Fatalf("trial %d (lock held=%t): %d Remove() calls succeeded and %d returned ErrNonExistentWatch; want 1 and %d\nerrors: %v",
				trial, hold, okay, nonexist, callers-1, errs)
		}
		if l := w.WatchList(); len(l) != 0 {
			t.Fatalf("trial %d: WatchList() after Remove: %v", trial, l)
		}
	}
}

// (demonstration of seeded change C19h, kept as a regression scenario: the change alters handleEvent's signature,
// which leaves its contract stale and the function undecided)
// An inner directory of a recursive watch is renamed twice while the consumer
// is busy (it has not yet picked up an earlier event, so the reader is parked
// in sendEvent). When the reader gets to the first IN_MOVED_TO the directory
// already has its second name, so inotify_add_watch() on the first new name
// answers ENOENT. That error is reported, but the directory and everything
// below it must still end up being reported under the final name.
func TestVerifScenario_C19_RenameTwiceBusyConsumer(t *testing.T) {
	if !enableRecurse {
		t.Skip("needs recursive watches")
	}

	tmp := t.TempDir()
	root := filepath.Join(tmp, "root")
	if err := os.MkdirAll(filepath.Join(root, "a", "deep"), 0o755); err != nil {
		t.Fatal(err)
	}

	w, err := NewWatcher()
	if err != nil {
		t.Fatal(err)
	}
	defer w.Close()
	if err := w.Add(filepath.Join(root, "...")); err != nil {
		t.Fatal(err)
	}

	// Park the reader: nobody reads w.Events yet.
	if err := os.WriteFile(filepath.Join(root, "f"), nil, 0o644); err != nil {
		t.Fatal(err)
	}
	time.Sleep(200 * time.Millisecond)

	if err := os.Rename(filepath.Join(root, "a"), filepath.Join(root, "b")); err != nil {
		t.Fatal(err)
	}
	if err := os.Rename(filepath.Join(root, "b"), filepath.Join(root, "c")); err != nil {
		t.Fatal(err)
	}

	// Now start consuming.
	var (
		mu     sync.Mutex
		events []Event
		errs   []error
		done   = make(chan struct{})
		fin    = make(chan struct{})
	)
	go func() {
		defer close(fin)
		for {
			select {
			case <-done:
				return
			case e, ok := <-w.Events:
				if !ok {
					return
				}
				mu.Lock()
				events = append(events, e)
				mu.Unlock()
			case e, ok := <-w.Errors:
				if !ok {
					return
				}
				mu.Lock()
				errs = append(errs, e)
				mu.Unlock()
			}
		}
	}()
	time.Sleep(1500 * time.Millisecond)

	mu.Lock()
	events = nil
	t.Logf("errors reported while catching up: %v", errs)
	mu.Unlock()

	// File operations at two depths below the renamed directory.
	if err := os.WriteFile(filepath.Join(root, "c", "file1"), nil, 0o644); err != nil {
		t.Fatal(err)
	}
	if err := os.WriteFile(filepath.Join(root, "c", "deep", "file2"), nil, 0o644); err != nil {
		t.Fatal(err)
	}
	// wait (up to 5 s) until two Creates have arrived after the writes, then a little longer for stragglers
	for i := 0; i < 50; i++ {
		time.Sleep(100 * time.Millisecond)
		mu.Lock()
		n := 0
		for _, e := range events {
			if e.Has(Create) {
				n++
			}
		}
		mu.Unlock()
		if n >= 2 {
			break
		}
	}
	time.Sleep(200 * time.Millisecond)
	close(done)
	<-fin

	want := map[string]bool{
		filepath.Join(root, "c", "file1"):         false,
		filepath.Join(root, "c", "deep", "file2"): false,
	}
	for _, e := range events {
		if !e.Has(Create) {
			continue
		}
		if _, ok := want[e.Name]; ok {
			want[e.Name] = true
		} else {
			t.Errorf("Create reported with a path that does not exist: %s", e)
		}
	}
	for p, seen := range want {
		if !seen {
			t.Errorf("no Create reported for %s", p)
		}
	}
}

// (demonstration of seeded change C01j, kept as a regression scenario: the change moves the decode loop into a new
// function, which leaves the loop contract of readEvents without its loop)
// A slow consumer lets a few thousand name-less events (writes to two watched
// files) pile up in the kernel queue, so that one read() fills the 64K buffer
// exactly. Every write must still be reported.
func TestVerifScenario_C01_FullBufferBatch(t *testing.T) {
	tmp := t.TempDir()
	var fp [2]*os.File
	w, err := NewWatcher()
	if err != nil {
		t.Fatal(err)
	}
	defer w.Close()
	for i, n := range []string{"a", "b"} {
		p := filepath.Join(tmp, n)
		f, err := os.OpenFile(p, os.O_CREATE|os.O_WRONLY|os.O_APPEND, 0o644)
		if err != nil {
			t.Fatal(err)
		}
		defer f.Close()
		fp[i] = f
		if err := w.Add(p); err != nil {
			t.Fatal(err)
		}
	}

	// Alternate between the files so the kernel can't coalesce the events.
	const writes = 6000
	for i := 0; i < writes; i++ {
		if _, err := fp[i%2].Write([]byte("x")); err != nil {
			t.Fatal(err)
		}
		if i == 0 { // Reader picks this one up and blocks delivering it.
			time.Sleep(200 * time.Millisecond)
		}
	}

	got := 0
	quiet := time.NewTimer(time.Second)
loop:
	for {
		select {
		case ev := <-w.Events:
			if ev.Has(Write) {
				got++
			}
			quiet.Reset(time.Second)
		case err := <-w.Errors:
			t.Fatal(err) // an overflow would excuse the loss; there is none
		case <-quiet.C:
			break loop
		}
	}
	if got != writes {
		t.Errorf("got %d Write events for %d writes (%d lost, no ErrEventOverflow)", got, writes, writes-got)
	}
}

// (demonstration of seeded change C11h, kept as a regression scenario: the change gives handleEvent and newEvent a
// further parameter, which leaves their contracts stale, and resets the cookie store on every read)
// The same through the public API: a consumer that is slow for a moment lets
// the kernel queue grow past what one read(2) into the 64K buffer returns, so
// that one of the moves is cut in two by the end of the buffer.
func TestVerifScenario_C11_RenameAcrossReads(t *testing.T) {
	dir := t.TempDir()
	w, err := NewWatcher()
	if err != nil {
		t.Fatal(err)
	}
	defer w.Close()
	if err := w.Add(dir); err != nil {
		t.Fatal(err)
	}

	touch := func(name string) {
		t.Helper()
		fp, err := os.OpenFile(dir+"/"+name, os.O_CREATE|os.O_WRONLY, 0o644)
		if err != nil {
			t.Fatal(err)
		}
		fp.Close()
	}

	// The reader picks this one up and then waits for us in sendEvent().
	touch("first")
	time.Sleep(200 * time.Millisecond)

	// Everything below queues up in the kernel: an odd number of records in
	// front of a long run of FROM/TO pairs.
	touch("f0")
	const n = 1500
	for i := 0; i < n; i++ {
		a, b := "f0", "f1"
		if i%2 == 1 {
			a, b = b, a
		}
		if err := os.Rename(dir+"/"+a, dir+"/"+b); err != nil {
			t.Fatal(err)
		}
	}

	var (
		creates, bad int
		last         Event
		timeout      = time.After(20 * time.Second)
	)
	for creates < n {
		select {
		case err := <-w.Errors:
			t.Fatal(err)
		case <-timeout:
			t.Fatalf("timeout after %d moves", creates)
		case e := <-w.Events:
			if e.Has(Create) && last.Has(Rename) {
				creates++
				if e.renamedFrom != last.Name {
					bad++
					t.Errorf("move %d:\nhave: %s\nwant: %s", creates, e,
						Event{Name: e.Name, Op: e.Op, renamedFrom: last.Name})
				}
			}
			last = e
		}
	}
}

// (demonstration of seeded change C03i, kept as a regression scenario: the change moves the record walk of the decode
// loop into a new helper, which leaves the loop contract of readEvents without its loop, and regroups a batch per watch)
// Two watched directories of one Watcher, an unbuffered Events channel and a
// consumer that starts late: the changes are made one after another, so the
// events must come in exactly that order.
func TestVerifScenario_C03_CrossWatchOrder(t *testing.T) {
	tmp := t.TempDir()
	d1, d2 := filepath.Join(tmp, "d1"), filepath.Join(tmp, "d2")
	for _, d := range []string{d1, d2} {
		if err := os.Mkdir(d, 0o755); err != nil {
			t.Fatal(err)
		}
	}

	w, err := NewWatcher()
	if err != nil {
		t.Fatal(err)
	}
	defer w.Close()
	if err := w.Add(d1); err != nil {
		t.Fatal(err)
	}
	if err := w.Add(d2); err != nil {
		t.Fatal(err)
	}

	touch := func(p string) {
		t.Helper()
		fp, err := os.Create(p)
		if err != nil {
			t.Fatal(err)
		}
		fp.Close()
	}

	// The reader picks this one up and then waits for us to receive it; what
	// follows piles up in the kernel queue and is read in one go.
	touch(filepath.Join(d1, "first"))
	time.Sleep(200 * time.Millisecond)

	touch(filepath.Join(d1, "a"))
	touch(filepath.Join(d2, "b"))
	if err := os.Rename(filepath.Join(d1, "a"), filepath.Join(d2, "a")); err != nil {
		t.Fatal(err)
	}
	if err := os.Remove(filepath.Join(d2, "b")); err != nil {
		t.Fatal(err)
	}
	touch(filepath.Join(d1, "last"))

	want := []string{
		"CREATE " + filepath.Join(d1, "first"),
		"CREATE " + filepath.Join(d1, "a"),
		"CREATE " + filepath.Join(d2, "b"),
		"RENAME " + filepath.Join(d1, "a"),
		"CREATE " + filepath.Join(d2, "a"),
		"REMOVE " + filepath.Join(d2, "b"),
		"CREATE " + filepath.Join(d1, "last"),
	}
	var have []string
	for len(have) < len(want) {
		select {
		case ev := <-w.Events:
			have = append(have, ev.Op.String()+" "+ev.Name)
		case err := <-w.Errors:
			t.Fatal(err)
		case <-time.After(2 * time.Second):
			t.Fatalf("timeout; have so far:\n%q", have)
		}
	}
	if strings.Join(have, "\n") != strings.Join(want, "\n") {
		t.Errorf("wrong order\nhave:\n%q\nwant:\n%q", have, want)
	}
}
