#!/bin/bash
# build.sh <repo dir> <scratch dir>: assemble the kqueue-on-Linux replay module from the REAL sources of <repo dir>.
set -e
REPO="$1"; D="$2"; HERE="$(dirname "$0")"
mkdir -p "$D/kqsim" "$D/kqinternal"
printf 'module kqreal\n\ngo 1.17\n' > "$D/go.mod"
cp "$HERE/kqsim.go.txt" "$D/kqsim/kqsim.go"
printf 'package kqinternal\n\n// Debug is the stand-in for internal.Debug (debug printing only).\nfunc Debug(name string, kevent interface{}) {}\n' > "$D/kqinternal/internal.go"
for f in fsnotify.go shared.go backend_kqueue.go system_bsd.go; do
  sed -e '1s|^//go:build .*|//go:build linux|' \
      -e 's|"golang.org/x/sys/unix"|unix "kqreal/kqsim"|' \
      -e 's|"github.com/fsnotify/fsnotify/internal"|internal "kqreal/kqinternal"|' "$REPO/$f" > "$D/$f"
done
# fsnotify.go and shared.go have no build constraint on line 1: restore their first line
head -1 "$REPO/fsnotify.go" > "$D/.l1" && sed -i "1s|.*|$(head -1 "$REPO/fsnotify.go" | sed 's/[&|]/\\&/g')|" "$D/fsnotify.go"
sed -i "1s|.*|$(head -1 "$REPO/shared.go" | sed 's/[&|]/\\&/g')|" "$D/shared.go"
rm -f "$D/.l1"
cp "$HERE/kq_scenarios_test.go.txt" "$D/kq_scenarios_test.go"
# regression scenarios (demonstrations of earlier seeded changes; public API and kqsim helpers only)
[ -n "${KQ_NO_REGRESS:-}" ] || for f in "$HERE"/kq_regress_*_test.go.txt; do [ -f "$f" ] && cp "$f" "$D/$(basename "${f%.txt}")"; done
true
